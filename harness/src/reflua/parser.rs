//! Independent recursive-descent parser for Lua 5.1 and Luau (written from the manuals / the Luau
//! grammar page).  Two modes: `Luau` accepts the extensions darklua handles, `Strict51` is the
//! plain Lua 5.1 grammar (any extension is a syntax error naming the construct).

use super::ast::*;
use super::lexer::{lex, Lexed, Tk, Token};
use super::literal::{decode_escapes, decode_number, decode_string, Dialect, LitError};
use std::rc::Rc;

#[derive(Clone, Copy, Debug, PartialEq, Eq)]
pub enum Mode {
    Luau,
    Strict51,
}

#[derive(Clone, Debug)]
pub struct ParseError {
    pub pos: usize,
    pub line: u32,
    pub msg: String,
}

impl std::fmt::Display for ParseError {
    fn fmt(&self, f: &mut std::fmt::Formatter<'_>) -> std::fmt::Result {
        write!(f, "line {}: {} (byte {})", self.line, self.msg, self.pos)
    }
}

pub struct Parsed {
    pub block: Block,
    /// byte spans [start,end) of every type annotation / type declaration region, in source order
    pub type_spans: Vec<(usize, usize)>,
}

const MAX_DEPTH: u32 = 180;

struct P<'a> {
    lx: Lexed<'a>,
    i: usize,
    mode: Mode,
    depth: u32,
    type_spans: Vec<(usize, usize)>,
    /// nesting of function bodies (for vararg checks): whether the current function is vararg
    vararg_stack: Vec<bool>,
    loop_depth: Vec<u32>,
}

type R<T> = Result<T, ParseError>;

pub fn parse(src: &str, mode: Mode) -> R<Parsed> {
    let lx = lex(src, mode == Mode::Luau).map_err(|e| {
        let line = 1 + src.as_bytes()[..e.pos.min(src.len())].iter().filter(|b| **b == b'\n').count() as u32;
        ParseError { pos: e.pos, line, msg: format!("lexical error: {}", e.msg) }
    })?;
    let mut p = P { lx, i: 0, mode, depth: 0, type_spans: vec![], vararg_stack: vec![true], loop_depth: vec![0] };
    let block = p.block()?;
    if p.tok().kind != Tk::Eof {
        return p.err("unexpected token at top level (expected end of file)");
    }
    Ok(Parsed { block, type_spans: p.type_spans })
}

pub fn parse_block(src: &str, mode: Mode) -> R<Block> {
    parse(src, mode).map(|p| p.block)
}

/// parse a single expression (for tests and for the literal/expression monitors)
pub fn parse_expr(src: &str, mode: Mode) -> R<Expr> {
    let full = format!("return {}", src);
    let b = parse_block(&full, mode)?;
    match b.stmts.into_iter().next() {
        Some(Stmt::Return(mut v)) if v.len() == 1 => Ok(v.remove(0)),
        _ => Err(ParseError { pos: 0, line: 1, msg: "not a single expression".into() }),
    }
}

impl<'a> P<'a> {
    fn tok(&self) -> &Token {
        &self.lx.tokens[self.i.min(self.lx.tokens.len() - 1)]
    }
    fn tok_at(&self, o: usize) -> &Token {
        &self.lx.tokens[(self.i + o).min(self.lx.tokens.len() - 1)]
    }
    fn text(&self) -> &'a str {
        let t = self.tok();
        &self.lx.src[t.start..t.end]
    }
    fn text_at(&self, o: usize) -> &'a str {
        let t = self.tok_at(o);
        &self.lx.src[t.start..t.end]
    }
    fn err<T>(&self, msg: &str) -> R<T> {
        let t = self.tok();
        Err(ParseError { pos: t.start, line: t.line, msg: format!("{} near '{}'", msg, self.text().chars().take(20).collect::<String>()) })
    }
    fn luau_only<T>(&self, what: &str) -> R<T> {
        self.err(&format!("Luau construct not in Lua 5.1: {}", what))
    }
    fn advance(&mut self) {
        if self.i < self.lx.tokens.len() - 1 {
            self.i += 1;
        }
    }
    fn is_sym(&self, s: &str) -> bool {
        self.tok().kind == Tk::Sym && self.text() == s
    }
    fn is_kw(&self, s: &str) -> bool {
        self.tok().kind == Tk::Keyword && self.text() == s
    }
    fn is_name(&self, s: &str) -> bool {
        self.tok().kind == Tk::Name && self.text() == s
    }
    fn accept_sym(&mut self, s: &str) -> bool {
        if self.is_sym(s) {
            self.advance();
            true
        } else {
            false
        }
    }
    fn accept_kw(&mut self, s: &str) -> bool {
        if self.is_kw(s) {
            self.advance();
            true
        } else {
            false
        }
    }
    fn expect_sym(&mut self, s: &str) -> R<()> {
        if self.accept_sym(s) {
            Ok(())
        } else {
            self.err(&format!("expected '{}'", s))
        }
    }
    fn expect_kw(&mut self, s: &str) -> R<()> {
        if self.accept_kw(s) {
            Ok(())
        } else {
            self.err(&format!("expected '{}'", s))
        }
    }
    fn expect_name(&mut self) -> R<String> {
        if self.tok().kind == Tk::Name {
            let s = self.text().to_string();
            self.advance();
            Ok(s)
        } else {
            self.err("expected a name")
        }
    }
    fn enter(&mut self) -> R<()> {
        self.depth += 1;
        if self.depth > MAX_DEPTH {
            return self.err("nesting too deep for the reference parser");
        }
        Ok(())
    }
    fn leave(&mut self) {
        self.depth -= 1;
    }

    fn block_follow(&self) -> bool {
        let t = self.tok();
        match t.kind {
            Tk::Eof => true,
            Tk::Keyword => matches!(self.text(), "end" | "else" | "elseif" | "until"),
            _ => false,
        }
    }

    fn block(&mut self) -> R<Block> {
        self.enter()?;
        let mut stmts = vec![];
        while !self.block_follow() {
            let (s, last) = self.statement()?;
            stmts.push(s);
            self.accept_sym(";");
            if last {
                break;
            }
        }
        self.leave();
        if !self.block_follow() {
            return self.err("statement after a final statement (return/break/continue must end the block)");
        }
        Ok(Block { stmts })
    }

    fn attributes(&mut self) -> R<Vec<String>> {
        let mut attrs = vec![];
        while self.is_sym("@") {
            if self.mode == Mode::Strict51 {
                return self.luau_only("attribute");
            }
            self.advance();
            if self.accept_sym("[") {
                // @[name(args), name2]
                loop {
                    let n = self.expect_name()?;
                    attrs.push(n);
                    if self.is_sym("(") {
                        // literal arguments
                        self.advance();
                        let mut depth = 1;
                        while depth > 0 {
                            if self.tok().kind == Tk::Eof {
                                return self.err("unfinished attribute arguments");
                            }
                            if self.is_sym("(") {
                                depth += 1;
                            } else if self.is_sym(")") {
                                depth -= 1;
                            }
                            self.advance();
                        }
                    } else if self.tok().kind == Tk::Str {
                        self.advance();
                    } else if self.is_sym("{") {
                        self.table()?;
                    }
                    if !self.accept_sym(",") {
                        break;
                    }
                }
                self.expect_sym("]")?;
            } else {
                let n = self.expect_name()?;
                attrs.push(n);
            }
        }
        Ok(attrs)
    }

    /// returns (statement, is_last_statement)
    fn statement(&mut self) -> R<(Stmt, bool)> {
        let t = self.tok().clone();
        if t.kind == Tk::Sym && self.text() == "@" {
            let attrs = self.attributes()?;
            if self.is_kw("function") {
                self.advance();
                let name = self.func_name()?;
                let func = self.func_body(name.method.is_some(), attrs)?;
                return Ok((Stmt::Function { name, func }, false));
            }
            if self.is_kw("local") && self.tok_at(1).kind == Tk::Keyword && self.text_at(1) == "function" {
                self.advance();
                self.advance();
                let name = self.expect_name()?;
                let func = self.func_body(false, attrs)?;
                return Ok((Stmt::LocalFunction { name, func }, false));
            }
            return self.err("expected a function after attributes");
        }
        if t.kind == Tk::Keyword {
            match self.text() {
                "if" => return Ok((self.if_stmt()?, false)),
                "while" => {
                    self.advance();
                    let cond = self.expr()?;
                    self.expect_kw("do")?;
                    let body = self.loop_body()?;
                    self.expect_kw("end")?;
                    return Ok((Stmt::While { cond, body }, false));
                }
                "do" => {
                    self.advance();
                    let b = self.block()?;
                    self.expect_kw("end")?;
                    return Ok((Stmt::Do(b), false));
                }
                "for" => return Ok((self.for_stmt()?, false)),
                "repeat" => {
                    self.advance();
                    let body = self.loop_body()?;
                    self.expect_kw("until")?;
                    let cond = self.expr()?;
                    return Ok((Stmt::Repeat { body, cond }, false));
                }
                "function" => {
                    self.advance();
                    let name = self.func_name()?;
                    let func = self.func_body(name.method.is_some(), vec![])?;
                    return Ok((Stmt::Function { name, func }, false));
                }
                "local" => {
                    self.advance();
                    if self.accept_kw("function") {
                        let name = self.expect_name()?;
                        let func = self.func_body(false, vec![])?;
                        return Ok((Stmt::LocalFunction { name, func }, false));
                    }
                    return Ok((self.local_rest(false)?, false));
                }
                "return" => {
                    self.advance();
                    let mut vals = vec![];
                    if !self.block_follow() && !self.is_sym(";") {
                        vals = self.expr_list()?;
                    }
                    return Ok((Stmt::Return(vals), true));
                }
                "break" => {
                    self.advance();
                    if *self.loop_depth.last().unwrap() == 0 && self.mode == Mode::Strict51 {
                        return self.err("break outside of a loop");
                    }
                    return Ok((Stmt::Break, true));
                }
                _ => return self.err("unexpected keyword"),
            }
        }
        // contextual keywords (Luau)
        if t.kind == Tk::Name && self.mode == Mode::Luau {
            let w = self.text();
            let next = self.tok_at(1).clone();
            let next_text = self.text_at(1);
            if w == "const" && (next.kind == Tk::Name || (next.kind == Tk::Keyword && next_text == "function")) {
                self.advance();
                if self.accept_kw("function") {
                    let name = self.expect_name()?;
                    let func = self.func_body(false, vec![])?;
                    // represented as a const local function
                    return Ok((Stmt::Local { names: vec![Binding { name, ty: None, span: (0, 0) }], values: vec![Expr::Function(func)], is_const: true }, false));
                }
                return Ok((self.local_rest(true)?, false));
            }
            if w == "type" && next.kind == Tk::Name && next_text != "function" {
                return Ok((self.type_decl(false)?, false));
            }
            if w == "type" && next.kind == Tk::Keyword && next_text == "function" {
                return Ok((self.type_function(false)?, false));
            }
            if w == "export" && next.kind == Tk::Name && next_text == "type" {
                self.advance();
                if self.tok_at(1).kind == Tk::Keyword && self.text_at(1) == "function" {
                    return Ok((self.type_function(true)?, false));
                }
                return Ok((self.type_decl(true)?, false));
            }
            if w == "continue" {
                // `continue` is a statement unless it starts a call or an assignment
                let is_stmt = match next.kind {
                    Tk::Eof => true,
                    Tk::Keyword => matches!(next_text, "end" | "else" | "elseif" | "until"),
                    Tk::Sym => next_text == ";",
                    _ => false,
                };
                if is_stmt {
                    // (darklua's parser accepts `continue` outside loops; so does this mode)
                    self.advance();
                    return Ok((Stmt::Continue, true));
                }
            }
        }
        // expression statement: call or assignment
        let start_tok = self.i;
        let e = self.suffixed_expr()?;
        if self.is_sym("=") || self.is_sym(",") {
            let mut targets = vec![e];
            while self.accept_sym(",") {
                targets.push(self.suffixed_expr()?);
            }
            self.expect_sym("=")?;
            let values = self.expr_list()?;
            for t in &targets {
                if !matches!(t, Expr::Name(_) | Expr::Index(..) | Expr::Field(..)) {
                    self.i = start_tok;
                    return self.err("cannot assign to this expression");
                }
            }
            return Ok((Stmt::Assign { targets, values }, false));
        }
        if self.tok().kind == Tk::Sym {
            let op = match self.text() {
                "+=" => Some(BinOp::Add),
                "-=" => Some(BinOp::Sub),
                "*=" => Some(BinOp::Mul),
                "/=" => Some(BinOp::Div),
                "//=" => Some(BinOp::IDiv),
                "%=" => Some(BinOp::Mod),
                "^=" => Some(BinOp::Pow),
                "..=" => Some(BinOp::Concat),
                _ => None,
            };
            if let Some(op) = op {
                if self.mode == Mode::Strict51 {
                    return self.luau_only("compound assignment");
                }
                if !matches!(e, Expr::Name(_) | Expr::Index(..) | Expr::Field(..)) {
                    return self.err("cannot assign to this expression");
                }
                self.advance();
                let value = self.expr()?;
                return Ok((Stmt::CompoundAssign { target: e, op, value }, false));
            }
        }
        match e {
            Expr::Call { .. } | Expr::MethodCall { .. } => Ok((Stmt::Call(e), false)),
            _ => {
                self.err("syntax error: expression is not a statement")
            }
        }
    }

    fn loop_body(&mut self) -> R<Block> {
        *self.loop_depth.last_mut().unwrap() += 1;
        let b = self.block();
        *self.loop_depth.last_mut().unwrap() -= 1;
        b
    }

    fn if_stmt(&mut self) -> R<Stmt> {
        self.expect_kw("if")?;
        let mut clauses = vec![];
        let cond = self.expr()?;
        self.expect_kw("then")?;
        let b = self.block()?;
        clauses.push((cond, b));
        let mut else_block = None;
        loop {
            if self.accept_kw("elseif") {
                let c = self.expr()?;
                self.expect_kw("then")?;
                let b = self.block()?;
                clauses.push((c, b));
            } else if self.accept_kw("else") {
                else_block = Some(self.block()?);
                self.expect_kw("end")?;
                break;
            } else {
                self.expect_kw("end")?;
                break;
            }
        }
        Ok(Stmt::If { clauses, else_block })
    }

    fn binding(&mut self) -> R<Binding> {
        let st = self.tok().start;
        let name = self.expect_name()?;
        let mut ty = None;
        if self.is_sym(":") {
            if self.mode == Mode::Strict51 {
                return self.luau_only("type annotation");
            }
            let ts = self.tok().start;
            self.advance();
            ty = Some(self.ty()?);
            self.type_spans.push((ts, self.prev_end()));
        }
        Ok(Binding { name, ty, span: (st, self.prev_end()) })
    }

    fn prev_end(&self) -> usize {
        if self.i == 0 {
            0
        } else {
            self.lx.tokens[self.i - 1].end
        }
    }

    fn for_stmt(&mut self) -> R<Stmt> {
        self.expect_kw("for")?;
        let first = self.binding()?;
        if self.accept_sym("=") {
            let start = self.expr()?;
            self.expect_sym(",")?;
            let limit = self.expr()?;
            let step = if self.accept_sym(",") { Some(self.expr()?) } else { None };
            self.expect_kw("do")?;
            let body = self.loop_body()?;
            self.expect_kw("end")?;
            return Ok(Stmt::NumFor { var: first, start, limit, step, body });
        }
        let mut vars = vec![first];
        while self.accept_sym(",") {
            vars.push(self.binding()?);
        }
        self.expect_kw("in")?;
        let exprs = self.expr_list()?;
        self.expect_kw("do")?;
        let body = self.loop_body()?;
        self.expect_kw("end")?;
        Ok(Stmt::GenFor { vars, exprs, body })
    }

    fn local_rest(&mut self, is_const: bool) -> R<Stmt> {
        let mut names = vec![self.binding()?];
        while self.accept_sym(",") {
            names.push(self.binding()?);
        }
        let mut values = vec![];
        if self.accept_sym("=") {
            values = self.expr_list()?;
        }
        Ok(Stmt::Local { names, values, is_const })
    }

    fn func_name(&mut self) -> R<FuncName> {
        let base = self.expect_name()?;
        let mut fields = vec![];
        let mut method = None;
        loop {
            if self.accept_sym(".") {
                fields.push(self.expect_name()?);
            } else if self.accept_sym(":") {
                method = Some(self.expect_name()?);
                break;
            } else {
                break;
            }
        }
        Ok(FuncName { base, fields, method })
    }

    fn func_body(&mut self, _is_method: bool, attributes: Vec<String>) -> R<Rc<FuncBody>> {
        self.enter()?;
        let mut generics = None;
        if self.is_sym("<") {
            if self.mode == Mode::Strict51 {
                return self.luau_only("generic function");
            }
            let ts = self.tok().start;
            generics = Some(self.generics_decl()?);
            self.type_spans.push((ts, self.prev_end()));
        }
        self.expect_sym("(")?;
        let mut params = vec![];
        let mut is_vararg = false;
        let mut vararg_ty = None;
        if !self.is_sym(")") {
            loop {
                if self.accept_sym("...") {
                    is_vararg = true;
                    if self.is_sym(":") {
                        if self.mode == Mode::Strict51 {
                            return self.luau_only("type annotation");
                        }
                        let ts = self.tok().start;
                        self.advance();
                        vararg_ty = Some(self.ty_or_pack()?);
                        self.type_spans.push((ts, self.prev_end()));
                    }
                    break;
                }
                params.push(self.binding()?);
                if !self.accept_sym(",") {
                    break;
                }
            }
        }
        self.expect_sym(")")?;
        let mut ret_ty = None;
        if self.is_sym(":") {
            if self.mode == Mode::Strict51 {
                return self.luau_only("return type annotation");
            }
            let ts = self.tok().start;
            self.advance();
            ret_ty = Some(self.return_ty()?);
            self.type_spans.push((ts, self.prev_end()));
        }
        self.vararg_stack.push(is_vararg);
        self.loop_depth.push(0);
        let body = self.block();
        self.loop_depth.pop();
        self.vararg_stack.pop();
        let body = body?;
        self.expect_kw("end")?;
        self.leave();
        Ok(Rc::new(FuncBody { params, is_vararg, vararg_ty, generics, ret_ty, body, attributes }))
    }

    fn expr_list(&mut self) -> R<Vec<Expr>> {
        let mut v = vec![self.expr()?];
        while self.accept_sym(",") {
            v.push(self.expr()?);
        }
        Ok(v)
    }

    pub fn expr(&mut self) -> R<Expr> {
        self.sub_expr(0)
    }

    fn binop_here(&self) -> Option<BinOp> {
        let t = self.tok();
        match t.kind {
            Tk::Keyword => match self.text() {
                "and" => Some(BinOp::And),
                "or" => Some(BinOp::Or),
                _ => None,
            },
            Tk::Sym => match self.text() {
                "+" => Some(BinOp::Add),
                "-" => Some(BinOp::Sub),
                "*" => Some(BinOp::Mul),
                "/" => Some(BinOp::Div),
                "//" => Some(BinOp::IDiv),
                "%" => Some(BinOp::Mod),
                "^" => Some(BinOp::Pow),
                ".." => Some(BinOp::Concat),
                "==" => Some(BinOp::Eq),
                "~=" => Some(BinOp::Ne),
                "<" => Some(BinOp::Lt),
                "<=" => Some(BinOp::Le),
                ">" => Some(BinOp::Gt),
                ">=" => Some(BinOp::Ge),
                _ => None,
            },
            _ => None,
        }
    }

    fn sub_expr(&mut self, limit: u8) -> R<Expr> {
        self.enter()?;
        let mut left;
        let un = if self.is_kw("not") {
            Some(UnOp::Not)
        } else if self.is_sym("-") {
            Some(UnOp::Neg)
        } else if self.is_sym("#") {
            Some(UnOp::Len)
        } else {
            None
        };
        if let Some(op) = un {
            self.advance();
            let operand = self.sub_expr(UNARY_PREC)?;
            left = Expr::Unary(op, Box::new(operand));
        } else {
            left = self.simple_expr()?;
        }
        while let Some(op) = self.binop_here() {
            let (lp, rp) = op.prec();
            if lp <= limit {
                break;
            }
            if op == BinOp::IDiv && self.mode == Mode::Strict51 {
                return self.luau_only("floor division");
            }
            self.advance();
            let right = self.sub_expr(rp)?;
            left = Expr::Binary(op, Box::new(left), Box::new(right));
        }
        self.leave();
        Ok(left)
    }

    fn simple_expr(&mut self) -> R<Expr> {
        let t = self.tok().clone();
        let e = match t.kind {
            Tk::Number => {
                let txt = self.text();
                let d = if self.mode == Mode::Luau { Dialect::Luau } else { Dialect::L51 };
                let v = match decode_number(txt, d) {
                    Ok(v) => v,
                    Err(LitError::Uncertain(_)) => f64::NAN,
                    Err(LitError::Invalid(m)) => {
                        if self.mode == Mode::Strict51 {
                            return self.luau_only(&format!("number literal ({})", m));
                        }
                        return self.err(&format!("malformed number: {}", m));
                    }
                };
                self.advance();
                Expr::Number(v, txt.to_string())
            }
            Tk::Str => {
                let txt = self.text();
                let d = if self.mode == Mode::Luau { Dialect::Luau } else { Dialect::L51 };
                let v = match decode_string(txt, d) {
                    Ok(v) => v,
                    Err(LitError::Uncertain(_)) => txt.as_bytes().to_vec(),
                    Err(LitError::Invalid(m)) => return self.err(&format!("malformed string: {}", m)),
                };
                if self.mode == Mode::Strict51 && has_luau_escape(txt) {
                    return self.luau_only("string escape (\\x, \\z or \\u)");
                }
                self.advance();
                Expr::Str(v, txt.to_string())
            }
            Tk::InterpSimple | Tk::InterpBegin => {
                if self.mode == Mode::Strict51 {
                    return self.luau_only("interpolated string");
                }
                return self.interp();
            }
            Tk::Keyword => match self.text() {
                "nil" => {
                    self.advance();
                    Expr::Nil
                }
                "true" => {
                    self.advance();
                    Expr::True
                }
                "false" => {
                    self.advance();
                    Expr::False
                }
                "function" => {
                    self.advance();
                    let f = self.func_body(false, vec![])?;
                    Expr::Function(f)
                }
                "if" => {
                    if self.mode == Mode::Strict51 {
                        return self.luau_only("if expression");
                    }
                    return self.if_expr();
                }
                _ => return self.err("unexpected keyword in expression"),
            },
            Tk::Sym => match self.text() {
                "..." => {
                    if !*self.vararg_stack.last().unwrap() {
                        return self.err("cannot use '...' outside a vararg function");
                    }
                    self.advance();
                    Expr::Vararg
                }
                "{" => self.table()?,
                "@" => {
                    let attrs = self.attributes()?;
                    self.expect_kw("function")?;
                    let f = self.func_body(false, attrs)?;
                    Expr::Function(f)
                }
                _ => return self.cast_suffix_wrap(),
            },
            _ => return self.cast_suffix_wrap(),
        };
        self.cast_suffix(e)
    }

    fn cast_suffix_wrap(&mut self) -> R<Expr> {
        let e = self.suffixed_expr()?;
        self.cast_suffix(e)
    }

    fn cast_suffix(&mut self, e: Expr) -> R<Expr> {
        if self.is_sym("::") {
            if self.mode == Mode::Strict51 {
                return self.luau_only("type cast");
            }
            let ts = self.tok().start;
            self.advance();
            let ty = self.ty()?;
            self.type_spans.push((ts, self.prev_end()));
            return Ok(Expr::Cast(Box::new(e), Box::new(ty)));
        }
        Ok(e)
    }

    fn if_expr(&mut self) -> R<Expr> {
        self.enter()?;
        self.expect_kw("if")?;
        let mut clauses = vec![];
        let c = self.expr()?;
        self.expect_kw("then")?;
        let v = self.expr()?;
        clauses.push((c, v));
        let else_;
        loop {
            if self.accept_kw("elseif") {
                let c = self.expr()?;
                self.expect_kw("then")?;
                let v = self.expr()?;
                clauses.push((c, v));
            } else {
                self.expect_kw("else")?;
                else_ = self.expr()?;
                break;
            }
        }
        self.leave();
        Ok(Expr::IfExpr { clauses, else_: Box::new(else_) })
    }

    fn interp(&mut self) -> R<Expr> {
        self.enter()?;
        let mut parts = vec![];
        let t = self.tok().clone();
        let txt = self.text();
        let push_str = |parts: &mut Vec<InterpPart>, body: &str, p: &P| -> R<()> {
            match decode_escapes(body.as_bytes(), Dialect::Luau, true) {
                Ok(b) => {
                    if !b.is_empty() {
                        parts.push(InterpPart::Str(b));
                    }
                    Ok(())
                }
                Err(LitError::Uncertain(_)) => {
                    parts.push(InterpPart::Str(body.as_bytes().to_vec()));
                    Ok(())
                }
                Err(LitError::Invalid(m)) => p.err(&format!("malformed interpolated string: {}", m)),
            }
        };
        if t.kind == Tk::InterpSimple {
            push_str(&mut parts, &txt[1..txt.len() - 1], self)?;
            self.advance();
            self.leave();
            return Ok(Expr::Interp(parts));
        }
        // begin
        push_str(&mut parts, &txt[1..txt.len() - 1], self)?;
        self.advance();
        loop {
            let e = self.expr()?;
            parts.push(InterpPart::Expr(e));
            let t = self.tok().clone();
            let txt = self.text();
            match t.kind {
                Tk::InterpMid => {
                    push_str(&mut parts, &txt[1..txt.len() - 1], self)?;
                    self.advance();
                }
                Tk::InterpEnd => {
                    push_str(&mut parts, &txt[1..txt.len() - 1], self)?;
                    self.advance();
                    break;
                }
                _ => return self.err("malformed interpolated string (expected '}')"),
            }
        }
        self.leave();
        Ok(Expr::Interp(parts))
    }

    fn table(&mut self) -> R<Expr> {
        self.enter()?;
        self.expect_sym("{")?;
        let mut items = vec![];
        while !self.is_sym("}") {
            if self.is_sym("[") {
                self.advance();
                let k = self.expr()?;
                self.expect_sym("]")?;
                self.expect_sym("=")?;
                let v = self.expr()?;
                items.push(TableItem::Keyed(k, v));
            } else if self.tok().kind == Tk::Name && self.tok_at(1).kind == Tk::Sym && self.text_at(1) == "=" {
                let n = self.expect_name()?;
                self.advance();
                let v = self.expr()?;
                items.push(TableItem::Named(n, v));
            } else {
                let v = self.expr()?;
                items.push(TableItem::Pos(v));
            }
            if !(self.accept_sym(",") || self.accept_sym(";")) {
                break;
            }
        }
        self.expect_sym("}")?;
        self.leave();
        Ok(Expr::Table(items))
    }

    fn primary_expr(&mut self) -> R<Expr> {
        let t = self.tok().clone();
        if t.kind == Tk::Name {
            let n = self.text().to_string();
            self.advance();
            return Ok(Expr::Name(n));
        }
        if self.is_sym("(") {
            self.enter()?;
            self.advance();
            let e = self.expr()?;
            self.expect_sym(")")?;
            self.leave();
            return Ok(Expr::Paren(Box::new(e)));
        }
        self.err("unexpected symbol (expected an expression)")
    }

    fn suffixed_expr(&mut self) -> R<Expr> {
        let mut e = self.primary_expr()?;
        let mut chain = 0u32;
        loop {
            chain += 1;
            if chain > 4000 {
                return self.err("suffix chain too long for the reference parser");
            }
            let t = self.tok().clone();
            match t.kind {
                Tk::Sym => match self.text() {
                    "." => {
                        self.advance();
                        // Luau and Lua accept keywords? no: a field name must be a Name
                        let n = self.expect_name()?;
                        e = Expr::Field(Box::new(e), n);
                    }
                    "[" => {
                        self.advance();
                        let k = self.expr()?;
                        self.expect_sym("]")?;
                        e = Expr::Index(Box::new(e), Box::new(k));
                    }
                    ":" => {
                        // method call (but `::` is lexed separately)
                        self.advance();
                        let n = self.expect_name()?;
                        let mut targs = None;
                        if self.mode == Mode::Luau && self.is_sym("<") && self.tok_at(1).kind == Tk::Sym && self.text_at(1) == "<" {
                            let ts = self.tok().start;
                            self.advance();
                            self.advance();
                            let mut kids = vec![];
                            if !self.is_sym(">") {
                                loop {
                                    kids.push(self.ty_or_pack()?);
                                    if !self.accept_sym(",") {
                                        break;
                                    }
                                }
                            }
                            self.expect_sym(">")?;
                            self.expect_sym(">")?;
                            self.type_spans.push((ts, self.prev_end()));
                            targs = Some(Box::new(Ty { kind: "instantiation", text: String::new(), kids, exprs: vec![] }));
                        }
                        let (args, sugar) = self.call_args()?;
                        e = Expr::MethodCall { obj: Box::new(e), name: n, args, sugar, targs };
                    }
                    "(" => {
                        if self.mode == Mode::Strict51 {
                            // Lua 5.1: "ambiguous syntax (function call x new statement)"
                            let prev_line = self.lx.tokens[self.i - 1].line_end(self.lx.src);
                            if t.line != prev_line {
                                return self.err("ambiguous syntax (function call x new statement)");
                            }
                        }
                        let (args, sugar) = self.call_args()?;
                        e = Expr::Call { func: Box::new(e), args, sugar };
                    }
                    "{" => {
                        let (args, sugar) = self.call_args()?;
                        e = Expr::Call { func: Box::new(e), args, sugar };
                    }
                    "<" if self.mode == Mode::Luau && self.tok_at(1).kind == Tk::Sym && self.text_at(1) == "<" => {
                        // explicit type instantiation f<<T>>
                        let ts = t.start;
                        self.advance();
                        self.advance();
                        let mut kids = vec![];
                        if !self.is_sym(">") {
                            loop {
                                kids.push(self.ty_or_pack()?);
                                if !self.accept_sym(",") {
                                    break;
                                }
                            }
                        }
                        self.expect_sym(">")?;
                        self.expect_sym(">")?;
                        self.type_spans.push((ts, self.prev_end()));
                        let _ = ts;
                        e = Expr::TypeInstantiation(Box::new(e), Box::new(Ty { kind: "instantiation", text: String::new(), kids, exprs: vec![] }));
                    }
                    _ => break,
                },
                Tk::Str => {
                    let (args, sugar) = self.call_args()?;
                    e = Expr::Call { func: Box::new(e), args, sugar };
                }
                Tk::InterpSimple | Tk::InterpBegin if self.mode == Mode::Luau => {
                    // f`...` call sugar exists in Luau
                    let arg = self.interp()?;
                    e = Expr::Call { func: Box::new(e), args: vec![arg], sugar: CallSugar::Str };
                }
                _ => break,
            }
        }
        Ok(e)
    }

    fn call_args(&mut self) -> R<(Vec<Expr>, CallSugar)> {
        let t = self.tok().clone();
        if t.kind == Tk::Str {
            let txt = self.text();
            let d = if self.mode == Mode::Luau { Dialect::Luau } else { Dialect::L51 };
            let v = match decode_string(txt, d) {
                Ok(v) => v,
                Err(LitError::Uncertain(_)) => txt.as_bytes().to_vec(),
                Err(LitError::Invalid(m)) => return self.err(&format!("malformed string: {}", m)),
            };
            if self.mode == Mode::Strict51 && has_luau_escape(txt) {
                return self.luau_only("string escape (\\x, \\z or \\u)");
            }
            self.advance();
            return Ok((vec![Expr::Str(v, txt.to_string())], CallSugar::Str));
        }
        if self.is_sym("{") {
            let t = self.table()?;
            return Ok((vec![t], CallSugar::Table));
        }
        self.expect_sym("(")?;
        let mut args = vec![];
        if !self.is_sym(")") {
            args = self.expr_list()?;
        }
        self.expect_sym(")")?;
        Ok((args, CallSugar::Parens))
    }

    // ---------------------------------------------------------------- types

    fn type_decl(&mut self, exported: bool) -> R<Stmt> {
        let ts = self.tok().start;
        self.advance(); // `type`
        let name = self.expect_name()?;
        let generics = if self.is_sym("<") { Some(self.generics_decl()?) } else { None };
        self.expect_sym("=")?;
        let ty = self.ty()?;
        self.type_spans.push((ts, self.prev_end()));
        Ok(Stmt::TypeDecl { exported, name, generics, ty })
    }

    fn type_function(&mut self, exported: bool) -> R<Stmt> {
        let ts = self.tok().start;
        self.advance(); // type
        self.advance(); // function
        let name = self.expect_name()?;
        let func = self.func_body(false, vec![])?;
        self.type_spans.push((ts, self.prev_end()));
        Ok(Stmt::TypeFunction { exported, name, func })
    }

    fn generics_decl(&mut self) -> R<Ty> {
        self.expect_sym("<")?;
        let mut kids = vec![];
        if !self.is_sym(">") {
            loop {
                let n = self.expect_name()?;
                let mut k = Ty { kind: "generic", text: n, kids: vec![], exprs: vec![] };
                if self.accept_sym("...") {
                    k.kind = "generic_pack";
                }
                if self.accept_sym("=") {
                    let d = self.ty_or_pack()?;
                    k.kids.push(d);
                }
                kids.push(k);
                if !self.accept_sym(",") {
                    break;
                }
            }
        }
        self.expect_sym(">")?;
        Ok(Ty { kind: "generics", text: String::new(), kids, exprs: vec![] })
    }

    fn return_ty(&mut self) -> R<Ty> {
        self.ty_or_pack()
    }

    /// a type, a variadic pack `...T`, a generic pack `T...`, or a parenthesised list
    fn ty_or_pack(&mut self) -> R<Ty> {
        if self.accept_sym("...") {
            let t = self.ty()?;
            return Ok(Ty { kind: "variadic", text: String::new(), kids: vec![t], exprs: vec![] });
        }
        if self.tok().kind == Tk::Name && self.tok_at(1).kind == Tk::Sym && self.text_at(1) == "..." {
            let n = self.expect_name()?;
            self.advance();
            return Ok(Ty { kind: "generic_pack", text: n, kids: vec![], exprs: vec![] });
        }
        self.ty()
    }

    fn ty(&mut self) -> R<Ty> {
        self.enter()?;
        let mut parts: Vec<Ty> = vec![];
        let mut sep: Option<&'static str> = None;
        // leading | or &
        if self.is_sym("|") {
            self.advance();
            sep = Some("union");
        } else if self.is_sym("&") {
            self.advance();
            sep = Some("intersection");
        }
        let leading = sep.is_some();
        parts.push(self.ty_postfix()?);
        if parts[0].kind == "pack" && !leading {
            // `()` / `(A, B)` is a type pack (a return type): union / intersection / `?` belong to the enclosing type
            self.leave();
            return Ok(parts.pop().unwrap());
        }
        loop {
            if self.is_sym("|") {
                if sep == Some("intersection") {
                    return self.err("mixing union and intersection types requires parentheses");
                }
                sep = Some("union");
                self.advance();
                parts.push(self.ty_postfix()?);
            } else if self.is_sym("&") {
                if sep == Some("union") {
                    return self.err("mixing union and intersection types requires parentheses");
                }
                sep = Some("intersection");
                self.advance();
                parts.push(self.ty_postfix()?);
            } else {
                break;
            }
        }
        self.leave();
        if parts.len() == 1 && !leading {
            return Ok(parts.pop().unwrap());
        }
        Ok(Ty { kind: sep.unwrap_or("union"), text: String::new(), kids: parts, exprs: vec![] })
    }

    fn ty_postfix(&mut self) -> R<Ty> {
        let mut t = self.ty_simple()?;
        while self.is_sym("?") && t.kind != "pack" {
            self.advance();
            t = Ty { kind: "optional", text: String::new(), kids: vec![t], exprs: vec![] };
        }
        Ok(t)
    }

    fn ty_simple(&mut self) -> R<Ty> {
        let t = self.tok().clone();
        let leaf = |kind: &'static str, text: &str| Ty { kind, text: text.to_string(), kids: vec![], exprs: vec![] };
        match t.kind {
            Tk::Keyword => {
                let w = self.text();
                match w {
                    "nil" | "true" | "false" => {
                        self.advance();
                        Ok(leaf("literal", w))
                    }
                    "function" => self.err("unexpected 'function' in type"),
                    _ => self.err("unexpected keyword in type"),
                }
            }
            Tk::Str => {
                let w = self.text();
                let v = decode_string(w, Dialect::Luau).unwrap_or_else(|_| w.as_bytes().to_vec());
                self.advance();
                Ok(Ty { kind: "string", text: String::from_utf8_lossy(&v).to_string(), kids: vec![], exprs: vec![] })
            }
            Tk::Name => {
                let w = self.text().to_string();
                if w == "typeof" && self.tok_at(1).kind == Tk::Sym && self.text_at(1) == "(" {
                    self.advance();
                    self.advance();
                    let e = self.expr()?;
                    self.expect_sym(")")?;
                    return Ok(Ty { kind: "typeof", text: String::new(), kids: vec![], exprs: vec![e] });
                }
                self.advance();
                let mut name = w;
                while self.is_sym(".") {
                    self.advance();
                    let n = self.expect_name()?;
                    name.push('.');
                    name.push_str(&n);
                }
                let mut kids = vec![];
                if self.is_sym("<") {
                    self.advance();
                    if !self.is_sym(">") {
                        loop {
                            kids.push(self.ty_or_pack()?);
                            if !self.accept_sym(",") {
                                break;
                            }
                        }
                    }
                    self.expect_sym(">")?;
                    if kids.is_empty() {
                        kids.push(leaf("empty_params", ""));
                    }
                }
                Ok(Ty { kind: "name", text: name, kids, exprs: vec![] })
            }
            Tk::Sym => match self.text() {
                "{" => self.ty_table(),
                "(" => self.ty_paren_or_function(None),
                "<" => {
                    let g = self.generics_decl()?;
                    if !self.is_sym("(") {
                        return self.err("expected '(' after generic list in function type");
                    }
                    self.ty_paren_or_function(Some(g))
                }
                _ => self.err("unexpected symbol in type"),
            },
            _ => self.err("unexpected token in type"),
        }
    }

    fn ty_table(&mut self) -> R<Ty> {
        self.enter()?;
        self.expect_sym("{")?;
        let mut kids = vec![];
        let mut kind: &'static str = "table";
        while !self.is_sym("}") {
            // optional access modifier read/write
            let mut access = String::new();
            if self.tok().kind == Tk::Name && (self.text() == "read" || self.text() == "write") {
                let n1 = self.tok_at(1).clone();
                let is_mod = n1.kind == Tk::Name || (n1.kind == Tk::Sym && self.text_at(1) == "[");
                if is_mod {
                    access = self.text().to_string();
                    self.advance();
                }
            }
            if self.is_sym("[") {
                self.advance();
                // string-literal property `["x"]: T` or indexer `[K]: V`
                let k = self.ty()?;
                self.expect_sym("]")?;
                self.expect_sym(":")?;
                let v = self.ty()?;
                let kd = if k.kind == "string" { "prop" } else { "indexer" };
                let text = if kd == "prop" { format!("{}{}", if access.is_empty() { String::new() } else { format!("{} ", access) }, k.text) } else { access.clone() };
                kids.push(Ty { kind: kd, text, kids: if kd == "prop" { vec![v] } else { vec![k, v] }, exprs: vec![] });
            } else if self.tok().kind == Tk::Name && self.tok_at(1).kind == Tk::Sym && self.text_at(1) == ":" {
                let n = self.expect_name()?;
                self.advance();
                let v = self.ty()?;
                let text = if access.is_empty() { n } else { format!("{} {}", access, n) };
                kids.push(Ty { kind: "prop", text, kids: vec![v], exprs: vec![] });
            } else {
                // array type { T }
                let v = self.ty()?;
                kind = "array";
                kids.push(v);
            }
            if !(self.accept_sym(",") || self.accept_sym(";")) {
                break;
            }
        }
        self.expect_sym("}")?;
        self.leave();
        Ok(Ty { kind, text: String::new(), kids, exprs: vec![] })
    }

    fn ty_paren_or_function(&mut self, generics: Option<Ty>) -> R<Ty> {
        self.enter()?;
        self.expect_sym("(")?;
        let mut params: Vec<Ty> = vec![];
        let mut named = false;
        if !self.is_sym(")") {
            loop {
                if self.tok().kind == Tk::Name && self.tok_at(1).kind == Tk::Sym && self.text_at(1) == ":" {
                    let n = self.expect_name()?;
                    self.advance();
                    let t = self.ty()?;
                    named = true;
                    params.push(Ty { kind: "named_param", text: n, kids: vec![t], exprs: vec![] });
                } else {
                    params.push(self.ty_or_pack()?);
                }
                if !self.accept_sym(",") {
                    break;
                }
            }
        }
        self.expect_sym(")")?;
        self.leave();
        if self.is_sym("->") {
            self.advance();
            let ret = self.return_ty()?;
            let mut kids = vec![];
            if let Some(g) = generics {
                kids.push(g);
            }
            kids.push(Ty { kind: "params", text: String::new(), kids: params, exprs: vec![] });
            kids.push(Ty { kind: "returns", text: String::new(), kids: vec![ret], exprs: vec![] });
            return Ok(Ty { kind: "function", text: String::new(), kids, exprs: vec![] });
        }
        if generics.is_some() || named {
            return self.err("expected '->' in function type");
        }
        if params.len() == 1 && !matches!(params[0].kind, "variadic" | "generic_pack") {
            return Ok(Ty { kind: "paren", text: String::new(), kids: params, exprs: vec![] });
        }
        Ok(Ty { kind: "pack", text: String::new(), kids: params, exprs: vec![] })
    }
}

fn has_luau_escape(lit: &str) -> bool {
    let b = lit.as_bytes();
    if b.first() == Some(&b'[') {
        return false;
    }
    let mut i = 0;
    while i + 1 < b.len() {
        if b[i] == b'\\' {
            if matches!(b[i + 1], b'x' | b'z' | b'u') {
                return true;
            }
            i += 2;
        } else {
            i += 1;
        }
    }
    false
}

impl Token {
    /// line on which the token ends
    pub fn line_end(&self, src: &str) -> u32 {
        self.line + src.as_bytes()[self.start..self.end].iter().filter(|b| **b == b'\n').count() as u32
    }
}
