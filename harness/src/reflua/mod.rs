pub mod ast;
pub mod interp;
pub mod lexer;
pub mod literal;
pub mod numfmt;
pub mod parser;
pub mod print;
pub mod resolve;
pub mod value;

use interp::{Interp, Outcome};
use literal::Dialect;

/// parse (Luau grammar) and run a chunk in the given dialect
pub fn run_source(src: &str, dialect: Dialect, fuel: i64, universal: bool) -> Result<Outcome, String> {
    let block = parser::parse_block(src, parser::Mode::Luau).map_err(|e| e.to_string())?;
    let mut it = Interp::new(dialect, fuel);
    it.universal = universal;
    Ok(it.run_chunk(&block))
}
