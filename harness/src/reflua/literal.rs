//! Independent decoding of string and number literals, per dialect.

#[derive(Clone, Copy, Debug, PartialEq, Eq)]
pub enum Dialect {
    L51,
    Luau,
}

#[derive(Debug, Clone, PartialEq)]
pub enum LitError {
    /// the literal is not valid in this dialect
    Invalid(String),
    /// the manuals leave room / the reference is not sure: the caller must not judge
    Uncertain(String),
}

fn hexval(c: u8) -> Option<u32> {
    (c as char).to_digit(16)
}

fn push_utf8(out: &mut Vec<u8>, cp: u32) {
    // Luau/Lua 5.3 style encoding, up to 0x7FFFFFFF
    if cp < 0x80 {
        out.push(cp as u8);
    } else if cp < 0x800 {
        out.push(0xC0 | (cp >> 6) as u8);
        out.push(0x80 | (cp & 0x3F) as u8);
    } else if cp < 0x10000 {
        out.push(0xE0 | (cp >> 12) as u8);
        out.push(0x80 | ((cp >> 6) & 0x3F) as u8);
        out.push(0x80 | (cp & 0x3F) as u8);
    } else if cp < 0x200000 {
        out.push(0xF0 | (cp >> 18) as u8);
        out.push(0x80 | ((cp >> 12) & 0x3F) as u8);
        out.push(0x80 | ((cp >> 6) & 0x3F) as u8);
        out.push(0x80 | (cp & 0x3F) as u8);
    } else if cp < 0x4000000 {
        out.push(0xF8 | (cp >> 24) as u8);
        out.push(0x80 | ((cp >> 18) & 0x3F) as u8);
        out.push(0x80 | ((cp >> 12) & 0x3F) as u8);
        out.push(0x80 | ((cp >> 6) & 0x3F) as u8);
        out.push(0x80 | (cp & 0x3F) as u8);
    } else {
        out.push(0xFC | (cp >> 30) as u8);
        out.push(0x80 | ((cp >> 24) & 0x3F) as u8);
        out.push(0x80 | ((cp >> 18) & 0x3F) as u8);
        out.push(0x80 | ((cp >> 12) & 0x3F) as u8);
        out.push(0x80 | ((cp >> 6) & 0x3F) as u8);
        out.push(0x80 | (cp & 0x3F) as u8);
    }
}

/// decode the body of a quoted string or of an interpolated-string segment (no delimiters)
pub fn decode_escapes(body: &[u8], d: Dialect, interp: bool) -> Result<Vec<u8>, LitError> {
    let mut out = Vec::with_capacity(body.len());
    let mut i = 0;
    while i < body.len() {
        let c = body[i];
        if c != b'\\' {
            if c == b'\n' || c == b'\r' {
                return Err(LitError::Invalid("raw newline in short string".into()));
            }
            out.push(c);
            i += 1;
            continue;
        }
        i += 1;
        if i >= body.len() {
            return Err(LitError::Invalid("dangling backslash".into()));
        }
        let e = body[i];
        match e {
            b'a' => {
                out.push(7);
                i += 1
            }
            b'b' => {
                out.push(8);
                i += 1
            }
            b'f' => {
                out.push(12);
                i += 1
            }
            b'n' => {
                out.push(10);
                i += 1
            }
            b'r' => {
                out.push(13);
                i += 1
            }
            b't' => {
                out.push(9);
                i += 1
            }
            b'v' => {
                out.push(11);
                i += 1
            }
            b'\n' => {
                out.push(b'\n');
                i += 1;
                if d == Dialect::L51 && i < body.len() && body[i] == b'\r' {
                    i += 1;
                }
            }
            b'\r' => {
                out.push(b'\n');
                i += 1;
                if i < body.len() && body[i] == b'\n' {
                    i += 1;
                }
            }
            b'0'..=b'9' => {
                let mut v: u32 = 0;
                let mut n = 0;
                while n < 3 && i < body.len() && body[i].is_ascii_digit() {
                    v = v * 10 + (body[i] - b'0') as u32;
                    i += 1;
                    n += 1;
                }
                if v > 255 {
                    return Err(LitError::Invalid("decimal escape too large".into()));
                }
                out.push(v as u8);
            }
            b'x' if d == Dialect::Luau => {
                if i + 2 >= body.len() + 0 && i + 2 > body.len() - 0 {
                    // fallthrough to the check below
                }
                let h1 = body.get(i + 1).and_then(|c| hexval(*c));
                let h2 = body.get(i + 2).and_then(|c| hexval(*c));
                match (h1, h2) {
                    (Some(a), Some(b)) => {
                        out.push((a * 16 + b) as u8);
                        i += 3;
                    }
                    _ => return Err(LitError::Invalid("\\x needs two hex digits".into())),
                }
            }
            b'z' if d == Dialect::Luau => {
                i += 1;
                while i < body.len() && matches!(body[i], b' ' | b'\t' | b'\n' | b'\r' | 0x0b | 0x0c) {
                    i += 1;
                }
            }
            b'u' if d == Dialect::Luau => {
                if body.get(i + 1) != Some(&b'{') {
                    return Err(LitError::Invalid("\\u needs {".into()));
                }
                let mut j = i + 2;
                let mut v: u64 = 0;
                let mut n = 0;
                while j < body.len() && body[j] != b'}' {
                    match hexval(body[j]) {
                        Some(h) => {
                            v = v * 16 + h as u64;
                            if v > 0x7FFF_FFFF {
                                return Err(LitError::Invalid("\\u too large".into()));
                            }
                        }
                        None => return Err(LitError::Invalid("\\u bad digit".into())),
                    }
                    j += 1;
                    n += 1;
                }
                if j >= body.len() || n == 0 {
                    return Err(LitError::Invalid("\\u unterminated".into()));
                }
                if v > 0x10FFFF {
                    // Luau rejects, Lua 5.4 accepts: not judged
                    return Err(LitError::Uncertain("\\u beyond 10FFFF".into()));
                }
                push_utf8(&mut out, v as u32);
                i = j + 1;
            }
            b'x' | b'z' | b'u' => {
                // Lua 5.1 has no such escape: an unknown escape yields the character itself
                out.push(e);
                i += 1;
            }
            _ => {
                let _ = interp;
                out.push(e);
                i += 1;
            }
        }
    }
    Ok(out)
}

/// decode a complete string literal token (quoted or long bracket)
pub fn decode_string(lit: &str, d: Dialect) -> Result<Vec<u8>, LitError> {
    let b = lit.as_bytes();
    if b.len() < 2 {
        return Err(LitError::Invalid("too short".into()));
    }
    if b[0] == b'"' || b[0] == b'\'' {
        if b[b.len() - 1] != b[0] {
            return Err(LitError::Invalid("unterminated".into()));
        }
        return decode_escapes(&b[1..b.len() - 1], d, false);
    }
    if b[0] == b'[' {
        let mut level = 0;
        let mut i = 1;
        while i < b.len() && b[i] == b'=' {
            level += 1;
            i += 1;
        }
        if i >= b.len() || b[i] != b'[' {
            return Err(LitError::Invalid("bad long bracket".into()));
        }
        let body_start = i + 1;
        let close_len = level + 2;
        if b.len() < body_start + close_len {
            return Err(LitError::Invalid("unterminated long string".into()));
        }
        let body_end = b.len() - close_len;
        // verify the closer
        let closer = &b[body_end..];
        if closer[0] != b']' || closer[closer.len() - 1] != b']' || !closer[1..closer.len() - 1].iter().all(|c| *c == b'=') {
            return Err(LitError::Invalid("bad closer".into()));
        }
        let mut body = &b[body_start..body_end];
        // skip first newline
        if body.starts_with(b"\r\n") {
            body = &body[2..];
        } else if body.starts_with(b"\n\r") && d == Dialect::L51 {
            body = &body[2..];
        } else if body.starts_with(b"\n") {
            body = &body[1..];
        } else if body.starts_with(b"\r") {
            if d == Dialect::L51 {
                body = &body[1..];
            } else {
                return Err(LitError::Uncertain("long string starting with a lone CR".into()));
            }
        }
        let mut out = Vec::with_capacity(body.len());
        let mut i = 0;
        while i < body.len() {
            let c = body[i];
            if c == b'\r' {
                if body.get(i + 1) == Some(&b'\n') {
                    out.push(b'\n');
                    i += 2;
                } else if d == Dialect::L51 {
                    out.push(b'\n');
                    i += 1;
                } else {
                    out.push(b'\r');
                    i += 1;
                }
            } else if c == b'\n' && d == Dialect::L51 && body.get(i + 1) == Some(&b'\r') {
                out.push(b'\n');
                i += 2;
            } else {
                out.push(c);
                i += 1;
            }
        }
        return Ok(out);
    }
    Err(LitError::Invalid("not a string literal".into()))
}

/// value of a number literal
pub fn decode_number(lit: &str, d: Dialect) -> Result<f64, LitError> {
    let t: String = if d == Dialect::Luau { lit.chars().filter(|c| *c != '_').collect() } else { lit.to_string() };
    if d == Dialect::L51 && lit.contains('_') {
        return Err(LitError::Invalid("underscore".into()));
    }
    let b = t.as_bytes();
    if b.len() >= 2 && b[0] == b'0' && (b[1] == b'x' || b[1] == b'X') {
        let digits = &t[2..];
        if digits.is_empty() || !digits.bytes().all(|c| c.is_ascii_hexdigit()) {
            if d == Dialect::L51 {
                return Err(LitError::Uncertain("hex float / odd hex in 5.1".into()));
            }
            return Err(LitError::Invalid("malformed hex".into()));
        }
        let trimmed = digits.trim_start_matches('0');
        if trimmed.len() > 16 {
            return Err(LitError::Uncertain("hex literal beyond 64 bits".into()));
        }
        let v = if trimmed.is_empty() { 0 } else { u64::from_str_radix(trimmed, 16).map_err(|e| LitError::Invalid(e.to_string()))? };
        return Ok(v as f64);
    }
    if b.len() >= 2 && b[0] == b'0' && (b[1] == b'b' || b[1] == b'B') {
        if d == Dialect::L51 {
            return Err(LitError::Invalid("binary literal".into()));
        }
        let digits = &t[2..];
        if digits.is_empty() || !digits.bytes().all(|c| c == b'0' || c == b'1') {
            return Err(LitError::Invalid("malformed binary".into()));
        }
        let trimmed = digits.trim_start_matches('0');
        if trimmed.len() > 64 {
            return Err(LitError::Uncertain("binary literal beyond 64 bits".into()));
        }
        let v = if trimmed.is_empty() { 0 } else { u64::from_str_radix(trimmed, 2).map_err(|e| LitError::Invalid(e.to_string()))? };
        return Ok(v as f64);
    }
    decode_decimal(&t)
}

/// `digits [. digits] [e[+-]digits]`, correctly rounded (through Rust's parser, which is exact)
pub fn decode_decimal(t: &str) -> Result<f64, LitError> {
    let b = t.as_bytes();
    let mut i = 0;
    let mut int = String::new();
    let mut frac = String::new();
    while i < b.len() && b[i].is_ascii_digit() {
        int.push(b[i] as char);
        i += 1;
    }
    if i < b.len() && b[i] == b'.' {
        i += 1;
        while i < b.len() && b[i].is_ascii_digit() {
            frac.push(b[i] as char);
            i += 1;
        }
    }
    if int.is_empty() && frac.is_empty() {
        return Err(LitError::Invalid("no digits".into()));
    }
    let mut exp = String::new();
    if i < b.len() && (b[i] == b'e' || b[i] == b'E') {
        i += 1;
        if i < b.len() && (b[i] == b'+' || b[i] == b'-') {
            exp.push(b[i] as char);
            i += 1;
        }
        let st = i;
        while i < b.len() && b[i].is_ascii_digit() {
            exp.push(b[i] as char);
            i += 1;
        }
        if st == i {
            return Err(LitError::Invalid("empty exponent".into()));
        }
    }
    if i != b.len() {
        return Err(LitError::Invalid("trailing characters".into()));
    }
    if int.is_empty() {
        int.push('0');
    }
    if frac.is_empty() {
        frac.push('0');
    }
    // keep the exponent in a range Rust accepts without changing the value
    let canon = if exp.is_empty() { format!("{}.{}", int, frac) } else {
        let digits = exp.trim_start_matches(['+', '-']);
        let neg = exp.starts_with('-');
        let digits = digits.trim_start_matches('0');
        let digits = if digits.len() > 6 { "999999" } else if digits.is_empty() { "0" } else { digits };
        format!("{}.{}e{}{}", int, frac, if neg { "-" } else { "" }, digits)
    };
    canon.parse::<f64>().map_err(|e| LitError::Invalid(e.to_string()))
}

/// C `strtod`-like conversion used by Lua's string->number coercion (A2 of DESIGN.md).
/// Returns Ok(None) when the string is not a number, Err when uncertain.
pub fn str_to_number(s: &[u8]) -> Result<Option<f64>, LitError> {
    let is_ws = |c: u8| matches!(c, b' ' | b'\t' | b'\n' | b'\r' | 0x0b | 0x0c);
    let mut a = 0;
    let mut z = s.len();
    while a < z && is_ws(s[a]) {
        a += 1;
    }
    while z > a && is_ws(s[z - 1]) {
        z -= 1;
    }
    let t = &s[a..z];
    if t.is_empty() {
        return Ok(None);
    }
    if t.iter().any(|c| *c == 0 || *c >= 0x80) {
        return Ok(None);
    }
    let txt = std::str::from_utf8(t).unwrap();
    let (neg, body) = if let Some(r) = txt.strip_prefix('-') {
        (true, r)
    } else if let Some(r) = txt.strip_prefix('+') {
        (false, r)
    } else {
        (false, txt)
    };
    if body.is_empty() {
        return Ok(None);
    }
    let lower = body.to_ascii_lowercase();
    if lower.starts_with("0x") {
        let digits = &lower[2..];
        if !digits.is_empty() && digits.bytes().all(|c| c.is_ascii_hexdigit()) {
            let trimmed = digits.trim_start_matches('0');
            if trimmed.len() > 13 {
                return Err(LitError::Uncertain("hex string beyond 2^53".into()));
            }
            let v = if trimmed.is_empty() { 0 } else { u64::from_str_radix(trimmed, 16).unwrap() };
            let v = v as f64;
            return Ok(Some(if neg { -v } else { v }));
        }
        return Err(LitError::Uncertain("hex float or odd hex string".into()));
    }
    if lower.starts_with("inf") || lower.starts_with("nan") {
        return Err(LitError::Uncertain("inf/nan spelling".into()));
    }
    if !body.bytes().next().map(|c| c.is_ascii_digit() || c == b'.').unwrap_or(false) {
        return Ok(None);
    }
    match decode_decimal(body) {
        Ok(v) => Ok(Some(if neg { -v } else { v })),
        Err(_) => Ok(None),
    }
}
