//! Independent scope resolver (DESIGN.md §2.1): rewrites a program into its alpha-normal form, in
//! which every local identifier is replaced by the index of its declaration (`%<n>`), following
//! Lua's scoping rules exactly.  Two programs are equal up to consistent renaming of locals iff
//! their alpha-normal forms are equal.

use super::ast::*;
use std::rc::Rc;

#[derive(Clone, Debug)]
pub struct Decl {
    pub name: String,
    /// local / parameter / for-variable / local-function / self / vararg-free
    pub kind: &'static str,
    pub uses: u32,
}

pub struct Resolved {
    pub block: Block,
    pub decls: Vec<Decl>,
    /// names read or written as globals
    pub globals: Vec<String>,
}

struct R {
    scopes: Vec<Vec<(String, usize)>>,
    decls: Vec<Decl>,
    globals: Vec<String>,
}

pub fn resolve(b: &Block) -> Resolved {
    let mut r = R { scopes: vec![vec![]], decls: vec![], globals: vec![] };
    let block = r.block_in_new_scope(b);
    Resolved { block, decls: r.decls, globals: r.globals }
}

impl R {
    fn declare(&mut self, name: &str, kind: &'static str) -> String {
        let id = self.decls.len();
        self.decls.push(Decl { name: name.to_string(), kind, uses: 0 });
        self.scopes.last_mut().unwrap().push((name.to_string(), id));
        format!("%{}", id)
    }
    fn lookup(&mut self, name: &str) -> String {
        for sc in self.scopes.iter().rev() {
            for (n, id) in sc.iter().rev() {
                if n == name {
                    self.decls[*id].uses += 1;
                    return format!("%{}", id);
                }
            }
        }
        if !self.globals.iter().any(|g| g == name) {
            self.globals.push(name.to_string());
        }
        name.to_string()
    }
    fn push(&mut self) {
        self.scopes.push(vec![]);
    }
    fn pop(&mut self) {
        self.scopes.pop();
    }

    fn block_in_new_scope(&mut self, b: &Block) -> Block {
        self.push();
        let out = self.stmts(&b.stmts);
        self.pop();
        Block { stmts: out }
    }

    fn stmts(&mut self, stmts: &[Stmt]) -> Vec<Stmt> {
        stmts.iter().map(|s| self.stmt(s)).collect()
    }

    fn binding(&mut self, b: &Binding, kind: &'static str) -> Binding {
        // the type annotation is resolved before the name becomes visible
        let ty = b.ty.as_ref().map(|t| self.ty(t));
        let name = self.declare(&b.name, kind);
        Binding { name, ty, span: b.span }
    }

    fn func(&mut self, f: &Rc<FuncBody>, with_self: bool) -> Rc<FuncBody> {
        self.push();
        if with_self {
            self.declare("self", "self");
        }
        let params: Vec<Binding> = f.params.iter().map(|p| self.binding(p, "parameter")).collect();
        let vararg_ty = f.vararg_ty.as_ref().map(|t| self.ty(t));
        let ret_ty = f.ret_ty.as_ref().map(|t| self.ty(t));
        let body = Block { stmts: self.stmts(&f.body.stmts) };
        self.pop();
        Rc::new(FuncBody { params, is_vararg: f.is_vararg, vararg_ty, generics: f.generics.clone(), ret_ty, body, attributes: f.attributes.clone() })
    }

    fn lookup_local_only(&mut self, name: &str) -> Option<String> {
        for sc in self.scopes.iter().rev() {
            for (n, id) in sc.iter().rev() {
                if n == name {
                    self.decls[*id].uses += 1;
                    return Some(format!("%{}", id));
                }
            }
        }
        None
    }

    fn ty(&mut self, t: &Ty) -> Ty {
        // value bindings appear in types in two places: expressions inside typeof(...), and the module prefix of a
        // qualified type name (`module.Type`, where `module` is a local holding a required module)
        let mut text = t.text.clone();
        if t.kind == "name" {
            if let Some((first, rest)) = t.text.split_once('.') {
                if let Some(id) = self.lookup_local_only(first) {
                    text = format!("{}.{}", id, rest);
                }
            }
        }
        Ty { kind: t.kind, text, kids: t.kids.iter().map(|k| self.ty(k)).collect(), exprs: t.exprs.iter().map(|e| self.expr(e)).collect() }
    }

    fn exprs(&mut self, es: &[Expr]) -> Vec<Expr> {
        es.iter().map(|e| self.expr(e)).collect()
    }

    fn stmt(&mut self, s: &Stmt) -> Stmt {
        match s {
            Stmt::Local { names, values, is_const } => {
                // the initialisers do not see the new names
                let values = self.exprs(values);
                let names = names.iter().map(|n| self.binding(n, "local")).collect();
                Stmt::Local { names, values, is_const: *is_const }
            }
            Stmt::Assign { targets, values } => {
                let targets = self.exprs(targets);
                let values = self.exprs(values);
                Stmt::Assign { targets, values }
            }
            Stmt::CompoundAssign { target, op, value } => {
                let target = self.expr(target);
                let value = self.expr(value);
                Stmt::CompoundAssign { target, op: *op, value }
            }
            Stmt::Call(e) => Stmt::Call(self.expr(e)),
            Stmt::Do(b) => Stmt::Do(self.block_in_new_scope(b)),
            Stmt::While { cond, body } => {
                let cond = self.expr(cond);
                Stmt::While { cond, body: self.block_in_new_scope(body) }
            }
            Stmt::Repeat { body, cond } => {
                // the condition sees the body's locals
                self.push();
                let b = Block { stmts: self.stmts(&body.stmts) };
                let cond = self.expr(cond);
                self.pop();
                Stmt::Repeat { body: b, cond }
            }
            Stmt::If { clauses, else_block } => {
                let clauses = clauses
                    .iter()
                    .map(|(c, b)| {
                        let c = self.expr(c);
                        (c, self.block_in_new_scope(b))
                    })
                    .collect();
                let else_block = else_block.as_ref().map(|b| self.block_in_new_scope(b));
                Stmt::If { clauses, else_block }
            }
            Stmt::NumFor { var, start, limit, step, body } => {
                let start = self.expr(start);
                let limit = self.expr(limit);
                let step = step.as_ref().map(|s| self.expr(s));
                self.push();
                let var = self.binding(var, "for-variable");
                let body = Block { stmts: self.stmts(&body.stmts) };
                self.pop();
                Stmt::NumFor { var, start, limit, step, body }
            }
            Stmt::GenFor { vars, exprs, body } => {
                let exprs = self.exprs(exprs);
                self.push();
                let vars = vars.iter().map(|v| self.binding(v, "for-variable")).collect();
                let body = Block { stmts: self.stmts(&body.stmts) };
                self.pop();
                Stmt::GenFor { vars, exprs, body }
            }
            Stmt::Function { name, func } => {
                let base = self.lookup(&name.base);
                let func = self.func(func, name.method.is_some());
                Stmt::Function { name: FuncName { base, fields: name.fields.clone(), method: name.method.clone() }, func }
            }
            Stmt::LocalFunction { name, func } => {
                // the function sees its own name
                let n = self.declare(name, "local-function");
                let func = self.func(func, false);
                Stmt::LocalFunction { name: n, func }
            }
            Stmt::Return(es) => Stmt::Return(self.exprs(es)),
            Stmt::Break => Stmt::Break,
            Stmt::Continue => Stmt::Continue,
            Stmt::TypeDecl { exported, name, generics, ty } => Stmt::TypeDecl { exported: *exported, name: name.clone(), generics: generics.clone(), ty: self.ty(ty) },
            Stmt::TypeFunction { exported, name, func } => Stmt::TypeFunction { exported: *exported, name: name.clone(), func: self.func(func, false) },
        }
    }

    fn expr(&mut self, e: &Expr) -> Expr {
        match e {
            Expr::Name(n) => Expr::Name(self.lookup(n)),
            Expr::Function(f) => Expr::Function(self.func(f, false)),
            Expr::Index(a, b) => {
                let a = self.expr(a);
                let b = self.expr(b);
                Expr::Index(Box::new(a), Box::new(b))
            }
            Expr::Field(a, f) => Expr::Field(Box::new(self.expr(a)), f.clone()),
            Expr::Call { func, args, sugar } => {
                let func = self.expr(func);
                Expr::Call { func: Box::new(func), args: self.exprs(args), sugar: *sugar }
            }
            Expr::MethodCall { obj, name, args, sugar, targs } => {
                let obj = self.expr(obj);
                // explicit type arguments do not take part in value bindings (and darklua drops them on method calls: a
                // defect reported under C02/C03, not a renaming matter)
                let _ = targs;
                Expr::MethodCall { obj: Box::new(obj), name: name.clone(), args: self.exprs(args), sugar: *sugar, targs: None }
            }
            Expr::Binary(op, a, b) => {
                let a = self.expr(a);
                let b = self.expr(b);
                Expr::Binary(*op, Box::new(a), Box::new(b))
            }
            Expr::Unary(op, a) => Expr::Unary(*op, Box::new(self.expr(a))),
            Expr::Paren(a) => Expr::Paren(Box::new(self.expr(a))),
            Expr::Table(items) => Expr::Table(
                items
                    .iter()
                    .map(|it| match it {
                        TableItem::Pos(v) => TableItem::Pos(self.expr(v)),
                        TableItem::Named(k, v) => TableItem::Named(k.clone(), self.expr(v)),
                        TableItem::Keyed(k, v) => {
                            let k = self.expr(k);
                            TableItem::Keyed(k, self.expr(v))
                        }
                    })
                    .collect(),
            ),
            Expr::IfExpr { clauses, else_ } => {
                let clauses = clauses
                    .iter()
                    .map(|(c, v)| {
                        let c = self.expr(c);
                        (c, self.expr(v))
                    })
                    .collect();
                Expr::IfExpr { clauses, else_: Box::new(self.expr(else_)) }
            }
            Expr::Interp(parts) => Expr::Interp(
                parts
                    .iter()
                    .map(|p| match p {
                        InterpPart::Expr(x) => InterpPart::Expr(self.expr(x)),
                        other => other.clone(),
                    })
                    .collect(),
            ),
            Expr::Cast(a, t) => {
                let a = self.expr(a);
                Expr::Cast(Box::new(a), Box::new(self.ty(t)))
            }
            Expr::TypeInstantiation(a, t) => Expr::TypeInstantiation(Box::new(self.expr(a)), t.clone()),
            other => other.clone(),
        }
    }
}
