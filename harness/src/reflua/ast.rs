//! AST of the reference front end.

use std::rc::Rc;

#[derive(Clone, Copy, Debug, PartialEq, Eq, Hash, PartialOrd, Ord)]
pub enum BinOp {
    Or,
    And,
    Lt,
    Gt,
    Le,
    Ge,
    Ne,
    Eq,
    Concat,
    Add,
    Sub,
    Mul,
    Div,
    IDiv,
    Mod,
    Pow,
}

impl BinOp {
    pub fn text(self) -> &'static str {
        match self {
            BinOp::Or => "or",
            BinOp::And => "and",
            BinOp::Lt => "<",
            BinOp::Gt => ">",
            BinOp::Le => "<=",
            BinOp::Ge => ">=",
            BinOp::Ne => "~=",
            BinOp::Eq => "==",
            BinOp::Concat => "..",
            BinOp::Add => "+",
            BinOp::Sub => "-",
            BinOp::Mul => "*",
            BinOp::Div => "/",
            BinOp::IDiv => "//",
            BinOp::Mod => "%",
            BinOp::Pow => "^",
        }
    }
    /// (left, right) binding powers as in the Lua 5.1 manual
    pub fn prec(self) -> (u8, u8) {
        match self {
            BinOp::Or => (1, 1),
            BinOp::And => (2, 2),
            BinOp::Lt | BinOp::Gt | BinOp::Le | BinOp::Ge | BinOp::Ne | BinOp::Eq => (3, 3),
            BinOp::Concat => (5, 4),
            BinOp::Add | BinOp::Sub => (6, 6),
            BinOp::Mul | BinOp::Div | BinOp::IDiv | BinOp::Mod => (7, 7),
            BinOp::Pow => (10, 9),
        }
    }
    pub const ALL: [BinOp; 16] = [
        BinOp::Or,
        BinOp::And,
        BinOp::Lt,
        BinOp::Gt,
        BinOp::Le,
        BinOp::Ge,
        BinOp::Ne,
        BinOp::Eq,
        BinOp::Concat,
        BinOp::Add,
        BinOp::Sub,
        BinOp::Mul,
        BinOp::Div,
        BinOp::IDiv,
        BinOp::Mod,
        BinOp::Pow,
    ];
    pub fn right_assoc(self) -> bool {
        matches!(self, BinOp::Concat | BinOp::Pow)
    }
}

pub const UNARY_PREC: u8 = 8;

#[derive(Clone, Copy, Debug, PartialEq, Eq, Hash)]
pub enum UnOp {
    Neg,
    Not,
    Len,
}
impl UnOp {
    pub fn text(self) -> &'static str {
        match self {
            UnOp::Neg => "-",
            UnOp::Not => "not",
            UnOp::Len => "#",
        }
    }
}

/// Luau type syntax, kept as a small generic tree (enough for parenthesis-insensitive comparison
/// and for finding expressions nested in `typeof(...)`).
#[derive(Clone, Debug, PartialEq)]
pub struct Ty {
    pub kind: &'static str,
    pub text: String,
    pub kids: Vec<Ty>,
    pub exprs: Vec<Expr>,
}

#[derive(Clone, Debug, PartialEq)]
pub struct Binding {
    pub name: String,
    pub ty: Option<Ty>,
    /// Lua 5.4 style attribs are not supported by darklua; Luau has none on locals
    pub span: (usize, usize),
}

#[derive(Clone, Debug, PartialEq)]
pub struct FuncBody {
    pub params: Vec<Binding>,
    pub is_vararg: bool,
    pub vararg_ty: Option<Ty>,
    pub generics: Option<Ty>,
    pub ret_ty: Option<Ty>,
    pub body: Block,
    pub attributes: Vec<String>,
}

#[derive(Clone, Debug, PartialEq)]
pub struct FuncName {
    pub base: String,
    pub fields: Vec<String>,
    pub method: Option<String>,
}

#[derive(Clone, Debug, PartialEq, Default)]
pub struct Block {
    pub stmts: Vec<Stmt>,
}

#[derive(Clone, Debug, PartialEq)]
pub enum Stmt {
    Local { names: Vec<Binding>, values: Vec<Expr>, is_const: bool },
    Assign { targets: Vec<Expr>, values: Vec<Expr> },
    CompoundAssign { target: Expr, op: BinOp, value: Expr },
    Call(Expr),
    Do(Block),
    While { cond: Expr, body: Block },
    Repeat { body: Block, cond: Expr },
    If { clauses: Vec<(Expr, Block)>, else_block: Option<Block> },
    NumFor { var: Binding, start: Expr, limit: Expr, step: Option<Expr>, body: Block },
    GenFor { vars: Vec<Binding>, exprs: Vec<Expr>, body: Block },
    Function { name: FuncName, func: Rc<FuncBody> },
    LocalFunction { name: String, func: Rc<FuncBody> },
    Return(Vec<Expr>),
    Break,
    Continue,
    TypeDecl { exported: bool, name: String, generics: Option<Ty>, ty: Ty },
    TypeFunction { exported: bool, name: String, func: Rc<FuncBody> },
}

#[derive(Clone, Copy, Debug, PartialEq, Eq)]
pub enum CallSugar {
    Parens,
    Str,
    Table,
}

#[derive(Clone, Debug, PartialEq)]
pub enum TableItem {
    Pos(Expr),
    Named(String, Expr),
    Keyed(Expr, Expr),
}

#[derive(Clone, Debug, PartialEq)]
pub enum InterpPart {
    Str(Vec<u8>),
    Expr(Expr),
}

#[derive(Clone, Debug, PartialEq)]
pub enum Expr {
    Nil,
    True,
    False,
    /// value and the literal's spelling
    Number(f64, String),
    /// decoded bytes and the literal's spelling
    Str(Vec<u8>, String),
    Vararg,
    Function(Rc<FuncBody>),
    Name(String),
    Index(Box<Expr>, Box<Expr>),
    Field(Box<Expr>, String),
    Call { func: Box<Expr>, args: Vec<Expr>, sugar: CallSugar },
    MethodCall { obj: Box<Expr>, name: String, args: Vec<Expr>, sugar: CallSugar, targs: Option<Box<Ty>> },
    Binary(BinOp, Box<Expr>, Box<Expr>),
    Unary(UnOp, Box<Expr>),
    Paren(Box<Expr>),
    Table(Vec<TableItem>),
    IfExpr { clauses: Vec<(Expr, Expr)>, else_: Box<Expr> },
    Interp(Vec<InterpPart>),
    Cast(Box<Expr>, Box<Ty>),
    TypeInstantiation(Box<Expr>, Box<Ty>),
}

impl Expr {
    pub fn name(s: &str) -> Expr {
        Expr::Name(s.to_string())
    }
    pub fn num(v: f64) -> Expr {
        Expr::Number(v, String::new())
    }
    pub fn str(s: &str) -> Expr {
        Expr::Str(s.as_bytes().to_vec(), String::new())
    }
    pub fn call(f: Expr, args: Vec<Expr>) -> Expr {
        Expr::Call { func: Box::new(f), args, sugar: CallSugar::Parens }
    }
    pub fn bin(op: BinOp, a: Expr, b: Expr) -> Expr {
        Expr::Binary(op, Box::new(a), Box::new(b))
    }
    pub fn un(op: UnOp, a: Expr) -> Expr {
        Expr::Unary(op, Box::new(a))
    }
    pub fn paren(a: Expr) -> Expr {
        Expr::Paren(Box::new(a))
    }
    pub fn field(a: Expr, f: &str) -> Expr {
        Expr::Field(Box::new(a), f.to_string())
    }
    pub fn index(a: Expr, k: Expr) -> Expr {
        Expr::Index(Box::new(a), Box::new(k))
    }
    /// can this expression produce several values (syntactically)?
    pub fn is_multi(&self) -> bool {
        matches!(self, Expr::Call { .. } | Expr::MethodCall { .. } | Expr::Vararg)
    }
    pub fn is_prefix_form(&self) -> bool {
        matches!(self, Expr::Name(_) | Expr::Index(..) | Expr::Field(..) | Expr::Call { .. } | Expr::MethodCall { .. } | Expr::Paren(_) | Expr::TypeInstantiation(..))
    }
}
