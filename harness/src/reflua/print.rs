//! Prints a reflua AST to a token list (and to text).  The printer inserts the parentheses the
//! grammar requires; explicit `Paren` nodes are kept.  Every token carries the name of the
//! production that emitted it (coverage key for the trivia-position census).

use super::ast::*;

#[derive(Clone, Debug)]
pub struct PTok {
    pub text: String,
    pub tag: &'static str,
    /// first token of a statement
    pub stmt_start: bool,
}

#[derive(Clone, Debug)]
pub struct PrintOpts {
    /// spell strings with this quote when the literal has no recorded spelling
    pub quote: char,
}

impl Default for PrintOpts {
    fn default() -> Self {
        PrintOpts { quote: '"' }
    }
}

pub struct Printer {
    pub toks: Vec<PTok>,
    pub opts: PrintOpts,
}

pub fn quote_bytes(bytes: &[u8], q: char) -> String {
    let mut s = String::new();
    s.push(q);
    let mut i = 0;
    while i < bytes.len() {
        let c = bytes[i];
        match c {
            b'\\' => s.push_str("\\\\"),
            b'\n' => s.push_str("\\n"),
            b'\r' => s.push_str("\\r"),
            b'\t' => s.push_str("\\t"),
            0x20..=0x7e => {
                if c as char == q {
                    s.push('\\');
                }
                s.push(c as char);
            }
            _ => {
                // decimal escape, always 3 digits so a following digit cannot extend it
                s.push_str(&format!("\\{:03}", c));
            }
        }
        i += 1;
    }
    s.push(q);
    s
}

/// number spelling that reads back as exactly `v` in both dialects
pub fn number_text(v: f64) -> String {
    if v.is_nan() {
        return "(0/0)".to_string();
    }
    if v.is_infinite() {
        return if v > 0.0 { "(1/0)".to_string() } else { "(-1/0)".to_string() };
    }
    if v == 0.0 && v.is_sign_negative() {
        return "(-0)".to_string();
    }
    if v < 0.0 {
        return format!("(-{})", number_text(-v));
    }
    if v.fract() == 0.0 && v < 1e15 {
        return format!("{}", v as i64);
    }
    let s = format!("{:e}", v); // shortest round trip, e.g. 1.5e-7
    // turn "1.5e-7" into a Lua-compatible literal (it already is one)
    let plain = format!("{}", v);
    if plain.len() <= 20 && !plain.contains("e") {
        plain
    } else {
        s
    }
}

fn binary_prec(op: BinOp) -> (u8, u8) {
    op.prec()
}

impl Printer {
    pub fn new(opts: PrintOpts) -> Printer {
        Printer { toks: vec![], opts }
    }
    fn t(&mut self, text: &str, tag: &'static str) {
        self.toks.push(PTok { text: text.to_string(), tag, stmt_start: false });
    }

    pub fn block(&mut self, b: &Block) {
        for (i, s) in b.stmts.iter().enumerate() {
            let before = self.toks.len();
            self.stmt(s);
            if i > 0 && self.toks.get(before).map(|t| t.text == "(").unwrap_or(false) {
                self.toks.insert(before, PTok { text: ";".into(), tag: "sep", stmt_start: false });
            }
            if let Some(t) = self.toks.get_mut(before) {
                t.stmt_start = true;
            }
        }
    }

    fn binding(&mut self, b: &Binding, tag: &'static str) {
        self.t(&b.name, tag);
        if let Some(ty) = &b.ty {
            self.t(":", "annot");
            self.ty(ty);
        }
    }

    fn func_body(&mut self, f: &FuncBody, is_method_def: bool) {
        let _ = is_method_def;
        if let Some(g) = &f.generics {
            self.generics(g);
        }
        self.t("(", "funcbody");
        let mut first = true;
        for p in &f.params {
            if !first {
                self.t(",", "funcbody");
            }
            first = false;
            self.binding(p, "param");
        }
        if f.is_vararg {
            if !first {
                self.t(",", "funcbody");
            }
            self.t("...", "param");
            if let Some(t) = &f.vararg_ty {
                self.t(":", "annot");
                self.ty(t);
            }
        }
        self.t(")", "funcbody");
        if let Some(r) = &f.ret_ty {
            self.t(":", "annot");
            self.ty(r);
        }
        self.block(&f.body);
        self.t("end", "funcbody");
    }

    fn attrs(&mut self, f: &FuncBody) {
        for a in &f.attributes {
            self.t("@", "attr");
            self.t(a, "attr");
        }
    }

    pub fn stmt(&mut self, s: &Stmt) {
        match s {
            Stmt::Local { names, values, is_const } => {
                if *is_const {
                    if names.len() == 1 && values.len() == 1 {
                        if let Expr::Function(f) = &values[0] {
                            // const function form is only used when parsed as such; print as const x = function
                            let _ = f;
                        }
                    }
                    self.t("const", "local");
                } else {
                    self.t("local", "local");
                }
                for (i, n) in names.iter().enumerate() {
                    if i > 0 {
                        self.t(",", "local");
                    }
                    self.binding(n, "local_name");
                }
                if !values.is_empty() {
                    self.t("=", "local");
                    self.expr_list(values, "local");
                }
            }
            Stmt::Assign { targets, values } => {
                for (i, t) in targets.iter().enumerate() {
                    if i > 0 {
                        self.t(",", "assign");
                    }
                    self.expr(t);
                }
                self.t("=", "assign");
                self.expr_list(values, "assign");
            }
            Stmt::CompoundAssign { target, op, value } => {
                self.expr(target);
                self.t(&format!("{}=", op.text()), "compound");
                self.expr(value);
            }
            Stmt::Call(e) => self.expr(e),
            Stmt::Do(b) => {
                self.t("do", "do");
                self.block(b);
                self.t("end", "do");
            }
            Stmt::While { cond, body } => {
                self.t("while", "while");
                self.expr(cond);
                self.t("do", "while");
                self.block(body);
                self.t("end", "while");
            }
            Stmt::Repeat { body, cond } => {
                self.t("repeat", "repeat");
                self.block(body);
                self.t("until", "repeat");
                self.expr(cond);
            }
            Stmt::If { clauses, else_block } => {
                for (i, (c, b)) in clauses.iter().enumerate() {
                    self.t(if i == 0 { "if" } else { "elseif" }, "if");
                    self.expr(c);
                    self.t("then", "if");
                    self.block(b);
                }
                if let Some(b) = else_block {
                    self.t("else", "if");
                    self.block(b);
                }
                self.t("end", "if");
            }
            Stmt::NumFor { var, start, limit, step, body } => {
                self.t("for", "numfor");
                self.binding(var, "numfor_var");
                self.t("=", "numfor");
                self.expr(start);
                self.t(",", "numfor");
                self.expr(limit);
                if let Some(s) = step {
                    self.t(",", "numfor");
                    self.expr(s);
                }
                self.t("do", "numfor");
                self.block(body);
                self.t("end", "numfor");
            }
            Stmt::GenFor { vars, exprs, body } => {
                self.t("for", "genfor");
                for (i, v) in vars.iter().enumerate() {
                    if i > 0 {
                        self.t(",", "genfor");
                    }
                    self.binding(v, "genfor_var");
                }
                self.t("in", "genfor");
                self.expr_list(exprs, "genfor");
                self.t("do", "genfor");
                self.block(body);
                self.t("end", "genfor");
            }
            Stmt::Function { name, func } => {
                self.attrs(func);
                self.t("function", "function");
                self.t(&name.base, "funcname");
                for f in &name.fields {
                    self.t(".", "funcname");
                    self.t(f, "funcname");
                }
                if let Some(m) = &name.method {
                    self.t(":", "funcname");
                    self.t(m, "funcname");
                }
                self.func_body(func, name.method.is_some());
            }
            Stmt::LocalFunction { name, func } => {
                self.attrs(func);
                self.t("local", "localfunction");
                self.t("function", "localfunction");
                self.t(name, "localfunction");
                self.func_body(func, false);
            }
            Stmt::Return(vals) => {
                self.t("return", "return");
                if !vals.is_empty() {
                    self.expr_list(vals, "return");
                }
            }
            Stmt::Break => self.t("break", "break"),
            Stmt::Continue => self.t("continue", "continue"),
            Stmt::TypeDecl { exported, name, generics, ty } => {
                if *exported {
                    self.t("export", "typedecl");
                }
                self.t("type", "typedecl");
                self.t(name, "typedecl");
                if let Some(g) = generics {
                    self.generics(g);
                }
                self.t("=", "typedecl");
                self.ty(ty);
            }
            Stmt::TypeFunction { exported, name, func } => {
                if *exported {
                    self.t("export", "typefunction");
                }
                self.t("type", "typefunction");
                self.t("function", "typefunction");
                self.t(name, "typefunction");
                self.func_body(func, false);
            }
        }
    }

    fn expr_list(&mut self, es: &[Expr], tag: &'static str) {
        for (i, e) in es.iter().enumerate() {
            if i > 0 {
                self.t(",", tag);
            }
            self.expr(e);
        }
    }

    fn paren_if(&mut self, cond: bool, e: &Expr) {
        if cond {
            self.t("(", "paren");
            self.expr(e);
            self.t(")", "paren");
        } else {
            self.expr(e);
        }
    }

    fn ends_with_open_expr(e: &Expr) -> bool {
        // expressions that extend as far to the right as possible
        match e {
            Expr::IfExpr { .. } => true,
            Expr::Binary(_, _, r) => Self::ends_with_open_expr(r),
            Expr::Unary(_, r) => Self::ends_with_open_expr(r),
            _ => false,
        }
    }

    fn prefix(&mut self, e: &Expr) {
        let ok = e.is_prefix_form();
        self.paren_if(!ok, e);
    }

    fn args(&mut self, args: &[Expr], sugar: CallSugar) {
        match sugar {
            CallSugar::Str if args.len() == 1 && matches!(args[0], Expr::Str(..) | Expr::Interp(..)) => self.expr(&args[0]),
            CallSugar::Table if args.len() == 1 && matches!(args[0], Expr::Table(..)) => self.expr(&args[0]),
            _ => {
                self.t("(", "call");
                self.expr_list(args, "call");
                self.t(")", "call");
            }
        }
    }

    pub fn expr(&mut self, e: &Expr) {
        match e {
            Expr::Nil => self.t("nil", "lit"),
            Expr::True => self.t("true", "lit"),
            Expr::False => self.t("false", "lit"),
            Expr::Number(v, raw) => {
                if raw.is_empty() {
                    let s = number_text(*v);
                    if let Some(inner) = s.strip_prefix('(').and_then(|x| x.strip_suffix(')')) {
                        // composite spelling: emit as tokens
                        self.t("(", "paren");
                        if let Some(r) = inner.strip_prefix('-') {
                            self.t("-", "unary");
                            if let Some((a, b)) = r.split_once('/') {
                                self.t(a, "number");
                                self.t("/", "binary");
                                self.t(b, "number");
                            } else {
                                self.t(r, "number");
                            }
                        } else if let Some((a, b)) = inner.split_once('/') {
                            self.t(a, "number");
                            self.t("/", "binary");
                            self.t(b, "number");
                        } else {
                            self.t(inner, "number");
                        }
                        self.t(")", "paren");
                    } else {
                        self.t(&s, "number");
                    }
                } else {
                    self.t(raw, "number");
                }
            }
            Expr::Str(v, raw) => {
                if raw.is_empty() {
                    let q = self.opts.quote;
                    self.t(&quote_bytes(v, q), "string");
                } else {
                    self.t(raw, "string");
                }
            }
            Expr::Vararg => self.t("...", "vararg"),
            Expr::Function(f) => {
                self.attrs(f);
                self.t("function", "funcexpr");
                self.func_body(f, false);
            }
            Expr::Name(n) => self.t(n, "name"),
            Expr::Index(b, k) => {
                self.prefix(b);
                self.t("[", "index");
                self.expr(k);
                self.t("]", "index");
            }
            Expr::Field(b, f) => {
                self.prefix(b);
                self.t(".", "field");
                self.t(f, "field");
            }
            Expr::Call { func, args, sugar } => {
                self.prefix(func);
                self.args(args, *sugar);
            }
            Expr::MethodCall { obj, name, args, sugar, targs } => {
                self.prefix(obj);
                self.t(":", "method");
                self.t(name, "method");
                if let Some(ty) = targs {
                    self.t("<", "instantiation");
                    self.t("<", "instantiation_inner");
                    for (i, k) in ty.kids.iter().enumerate() {
                        if i > 0 {
                            self.t(",", "instantiation");
                        }
                        self.ty(k);
                    }
                    self.t(">", "instantiation");
                    self.t(">", "instantiation_inner");
                }
                self.args(args, *sugar);
            }
            Expr::Binary(op, l, r) => {
                let (lp, rp) = binary_prec(*op);
                let lneeds = match &**l {
                    Expr::Binary(lop, _, _) => {
                        let (llp, _) = binary_prec(*lop);
                        // left child binds looser, or equal with right associativity
                        llp < lp || (llp == lp && op.right_assoc()) || Self::ends_with_open_expr(l)
                    }
                    Expr::Unary(_, _) => *op == BinOp::Pow || Self::ends_with_open_expr(l),
                    Expr::IfExpr { .. } => true,
                    _ => false,
                };
                self.paren_if(lneeds, l);
                self.t(op.text(), "binary");
                let rneeds = match &**r {
                    Expr::Binary(rop, _, _) => {
                        let (rlp, _) = binary_prec(*rop);
                        rlp <= rp
                    }
                    // a unary on the right of ^ is fine: 2^-x
                    _ => false,
                };
                self.paren_if(rneeds, r);
            }
            Expr::Unary(op, a) => {
                self.t(op.text(), "unary");
                let needs = match &**a {
                    Expr::Binary(bop, _, _) => binary_prec(*bop).0 < UNARY_PREC,
                    _ => false,
                };
                self.paren_if(needs, a);
            }
            Expr::Paren(a) => {
                self.t("(", "paren");
                self.expr(a);
                self.t(")", "paren");
            }
            Expr::Table(items) => {
                self.t("{", "table");
                for (i, it) in items.iter().enumerate() {
                    if i > 0 {
                        self.t(",", "table");
                    }
                    match it {
                        TableItem::Pos(v) => self.expr(v),
                        TableItem::Named(n, v) => {
                            self.t(n, "table_key");
                            self.t("=", "table");
                            self.expr(v);
                        }
                        TableItem::Keyed(k, v) => {
                            self.t("[", "table");
                            self.expr(k);
                            self.t("]", "table");
                            self.t("=", "table");
                            self.expr(v);
                        }
                    }
                }
                self.t("}", "table");
            }
            Expr::IfExpr { clauses, else_ } => {
                for (i, (c, v)) in clauses.iter().enumerate() {
                    self.t(if i == 0 { "if" } else { "elseif" }, "ifexpr");
                    self.expr(c);
                    self.t("then", "ifexpr");
                    self.expr(v);
                }
                self.t("else", "ifexpr");
                self.expr(else_);
            }
            Expr::Interp(parts) => {
                // emitted as the lexer's token pieces
                let mut cur = String::from("`");
                let mut any_hole = false;
                for p in parts {
                    match p {
                        InterpPart::Str(b) => cur.push_str(&interp_escape(b)),
                        InterpPart::Expr(e) => {
                            cur.push('{');
                            self.t(&cur, "interp");
                            cur = String::from("}");
                            // a table constructor directly inside a hole would read as `{{`
                            let needs = matches!(e, Expr::Table(_));
                            self.paren_if(needs, e);
                            any_hole = true;
                        }
                    }
                }
                let _ = any_hole;
                cur.push('`');
                self.t(&cur, "interp");
            }
            Expr::Cast(a, ty) => {
                let needs = matches!(&**a, Expr::Binary(..) | Expr::Unary(..) | Expr::IfExpr { .. } | Expr::Cast(..));
                self.paren_if(needs, a);
                self.t("::", "cast");
                self.ty(ty);
            }
            Expr::TypeInstantiation(a, ty) => {
                self.prefix(a);
                self.t("<", "instantiation");
                self.t("<", "instantiation_inner");
                for (i, k) in ty.kids.iter().enumerate() {
                    if i > 0 {
                        self.t(",", "instantiation");
                    }
                    self.ty(k);
                }
                self.t(">", "instantiation");
                self.t(">", "instantiation_inner");
            }
        }
    }

    fn generics(&mut self, g: &Ty) {
        self.t("<", "generics");
        for (i, k) in g.kids.iter().enumerate() {
            if i > 0 {
                self.t(",", "generics");
            }
            self.t(&k.text, "generics");
            if k.kind == "generic_pack" {
                self.t("...", "generics");
            }
            if let Some(d) = k.kids.first() {
                self.t("=", "generics");
                self.ty(d);
            }
        }
        self.t(">", "generics");
    }

    pub fn ty(&mut self, t: &Ty) {
        match t.kind {
            "literal" => self.t(&t.text, "type"),
            "string" => {
                let q = quote_bytes(t.text.as_bytes(), '"');
                self.t(&q, "type")
            }
            "name" => {
                let mut first = true;
                for part in t.text.split('.') {
                    if !first {
                        self.t(".", "type");
                    }
                    first = false;
                    self.t(part, "type");
                }
                if !t.kids.is_empty() {
                    self.t("<", "type");
                    let mut i = 0;
                    for k in &t.kids {
                        if k.kind == "empty_params" {
                            continue;
                        }
                        if i > 0 {
                            self.t(",", "type");
                        }
                        i += 1;
                        self.ty(k);
                    }
                    self.t(">", "type");
                }
            }
            "typeof" => {
                self.t("typeof", "type");
                self.t("(", "type");
                self.expr(&t.exprs[0]);
                self.t(")", "type");
            }
            "optional" => {
                let needs = matches!(t.kids[0].kind, "function" | "union" | "intersection");
                if needs {
                    self.t("(", "type");
                }
                self.ty(&t.kids[0]);
                if needs {
                    self.t(")", "type");
                }
                self.t("?", "type");
            }
            "union" | "intersection" => {
                let sep = if t.kind == "union" { "|" } else { "&" };
                for (i, k) in t.kids.iter().enumerate() {
                    if i > 0 {
                        self.t(sep, "type");
                    }
                    let needs = matches!(k.kind, "function" | "union" | "intersection");
                    if needs {
                        self.t("(", "type");
                    }
                    self.ty(k);
                    if needs {
                        self.t(")", "type");
                    }
                }
            }
            "array" => {
                self.t("{", "type");
                self.ty(&t.kids[0]);
                self.t("}", "type");
            }
            "table" => {
                self.t("{", "type");
                for (i, k) in t.kids.iter().enumerate() {
                    if i > 0 {
                        self.t(",", "type");
                    }
                    match k.kind {
                        "prop" => {
                            let mut name = k.text.as_str();
                            if let Some(r) = name.strip_prefix("read ") {
                                self.t("read", "type");
                                name = r;
                            } else if let Some(r) = name.strip_prefix("write ") {
                                self.t("write", "type");
                                name = r;
                            }
                            let is_ident = !name.is_empty() && name.bytes().all(|c| c.is_ascii_alphanumeric() || c == b'_') && !name.as_bytes()[0].is_ascii_digit() && !super::lexer::is_keyword(name);
                            if is_ident {
                                self.t(name, "type");
                            } else {
                                self.t("[", "type");
                                let q = quote_bytes(name.as_bytes(), '"');
                                self.t(&q, "type");
                                self.t("]", "type");
                            }
                            self.t(":", "type");
                            self.ty(&k.kids[0]);
                        }
                        "indexer" => {
                            if !k.text.is_empty() {
                                self.t(&k.text.clone(), "type");
                            }
                            self.t("[", "type");
                            self.ty(&k.kids[0]);
                            self.t("]", "type");
                            self.t(":", "type");
                            self.ty(&k.kids[1]);
                        }
                        _ => self.ty(k),
                    }
                }
                self.t("}", "type");
            }
            "paren" => {
                self.t("(", "type");
                self.ty(&t.kids[0]);
                self.t(")", "type");
            }
            "pack" => {
                self.t("(", "type");
                for (i, k) in t.kids.iter().enumerate() {
                    if i > 0 {
                        self.t(",", "type");
                    }
                    self.ty(k);
                }
                self.t(")", "type");
            }
            "variadic" => {
                self.t("...", "type");
                self.ty(&t.kids[0]);
            }
            "generic_pack" => {
                self.t(&t.text, "type");
                self.t("...", "type");
            }
            "function" => {
                let mut idx = 0;
                if t.kids[0].kind == "generics" {
                    self.generics(&t.kids[0]);
                    idx = 1;
                }
                self.t("(", "type");
                for (i, k) in t.kids[idx].kids.iter().enumerate() {
                    if i > 0 {
                        self.t(",", "type");
                    }
                    if k.kind == "named_param" {
                        self.t(&k.text, "type");
                        self.t(":", "type");
                        self.ty(&k.kids[0]);
                    } else {
                        self.ty(k);
                    }
                }
                self.t(")", "type");
                self.t("->", "type");
                self.ty(&t.kids[idx + 1].kids[0]);
            }
            _ => self.t(&t.text, "type"),
        }
    }
}

fn interp_escape(b: &[u8]) -> String {
    let mut s = String::new();
    for &c in b {
        match c {
            b'\\' => s.push_str("\\\\"),
            b'`' => s.push_str("\\`"),
            b'{' => s.push_str("\\{"),
            b'\n' => s.push_str("\\n"),
            b'\r' => s.push_str("\\r"),
            0x20..=0x7e => s.push(c as char),
            _ => s.push_str(&format!("\\{:03}", c)),
        }
    }
    s
}

/// does a space have to separate these two tokens?
pub fn needs_space(a: &str, b: &str) -> bool {
    let la = a.as_bytes().last().copied().unwrap_or(b' ');
    let fb = b.as_bytes().first().copied().unwrap_or(b' ');
    let alnum = |c: u8| c.is_ascii_alphanumeric() || c == b'_';
    if alnum(la) && alnum(fb) {
        return true;
    }
    // number followed by '.' or a name-ish / '.' followed by digit
    if (la.is_ascii_digit() || la == b'.') && (fb == b'.' || fb.is_ascii_digit()) {
        return true;
    }
    if alnum(la) && fb == b'.' && a.as_bytes()[0].is_ascii_digit() {
        return true;
    }
    if la == b'-' && fb == b'-' {
        return true;
    }
    if la == b'[' && (fb == b'[' || fb == b'=') {
        return true;
    }
    if la == b'.' && fb == b'.' {
        return true;
    }
    // symbols that could merge: `=` `=`, `<` `=`, `~` `=`, `/` `/`, `:` `:`, `-` `>`, op + `=`
    let merge = [("=", "="), ("<", "="), (">", "="), ("~", "="), ("/", "/"), (":", ":"), ("-", ">"), ("+", "="), ("-", "="), ("*", "="), ("/", "="), ("%", "="), ("^", "="), ("..", "="), ("//", "="), ("..", "."), (".", ".."), ("<", "<"), (">", ">"), ("..", "..")];
    for (x, y) in merge {
        if a.ends_with(x) && b.starts_with(y) {
            return true;
        }
    }
    false
}

/// plain rendering: one space only where needed, statements separated by newlines is not
/// attempted (single line) — used for compact replay output and by generators as the base text
pub fn join_min(toks: &[PTok]) -> String {
    let mut s = String::new();
    for (i, t) in toks.iter().enumerate() {
        if i > 0 && needs_space(&toks[i - 1].text, &t.text) {
            s.push(' ');
        }
        s.push_str(&t.text);
    }
    s
}

/// readable rendering: a space between every pair of tokens, newline before statement keywords
pub fn join_spaced(toks: &[PTok]) -> String {
    let mut s = String::new();
    for (i, t) in toks.iter().enumerate() {
        if i > 0 {
            s.push(' ');
        }
        s.push_str(&t.text);
    }
    s
}

pub fn print_block(b: &Block) -> String {
    let mut p = Printer::new(PrintOpts::default());
    p.block(b);
    pretty(&p.toks)
}

pub fn print_expr(e: &Expr) -> String {
    let mut p = Printer::new(PrintOpts::default());
    p.expr(e);
    join_spaced(&p.toks)
}

/// pretty form: one statement per line, block closers on their own line
pub fn pretty(toks: &[PTok]) -> String {
    let mut s = String::new();
    for (i, t) in toks.iter().enumerate() {
        if i > 0 {
            let closer = matches!(t.text.as_str(), "end" | "until" | "else" | "elseif") && t.tag != "ifexpr";
            if t.stmt_start || closer {
                s.push('\n');
            } else {
                s.push(' ');
            }
        }
        s.push_str(&t.text);
    }
    s.push('\n');
    s
}
