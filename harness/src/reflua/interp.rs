//! Reference tree-walking interpreter with an event log (DESIGN.md §2.2, appendix A).

use super::ast::*;
use super::literal::{str_to_number, Dialect, LitError};
use super::numfmt;
use super::value::*;
use std::cell::RefCell;
use std::collections::HashMap;
use std::rc::Rc;

pub enum Ctl {
    /// a Lua error; `positioned` = the message would carry position/variable information in a
    /// real implementation (so its text must not be observed)
    Error { value: Value, positioned: bool },
    Fuel,
    Depth,
}

pub enum Flow {
    Normal,
    Break,
    Continue,
    Return(Vec<Value>),
}

type R<T> = Result<T, Ctl>;

pub fn rt_err<T>(msg: &str) -> R<T> {
    Err(Ctl::Error { value: Value::str(msg), positioned: true })
}

#[derive(Clone, Debug, PartialEq)]
pub enum Status {
    /// finished; serialised return values
    Done(Vec<String>),
    Error(String),
    Fuel,
    Depth,
}

#[derive(Clone, Debug)]
pub struct Outcome {
    pub status: Status,
    pub log: Vec<String>,
    pub uncertain: Option<String>,
    pub steps: u64,
}

impl Outcome {
    pub fn finished(&self) -> bool {
        matches!(self.status, Status::Done(_))
    }
    /// observable behaviour as one string list (trace + results)
    pub fn observable(&self) -> (Vec<String>, Option<Vec<String>>) {
        (self.log.clone(), if let Status::Done(r) = &self.status { Some(r.clone()) } else { None })
    }
}

/// model `require`: shared (`Rc`) so that a module being loaded can itself call `require`
/// (the hook stays installed while it runs; keep its state behind a `RefCell`)
pub type RequireHook = Rc<dyn Fn(&mut Interp, &str) -> Result<Value, String>>;

pub struct Interp {
    pub dialect: Dialect,
    fuel_start: i64,
    fuel: i64,
    pub log: Vec<String>,
    pub uncertain: Option<String>,
    next_id: u32,
    ext_calls: u32,
    hostile_count: u32,
    pub globals: Rc<TableObj>,
    string_lib: Rc<TableObj>,
    hostile_mt: Rc<TableObj>,
    depth: u32,
    pub universal: bool,
    pub max_log: usize,
    pub require_hook: Option<RequireHook>,
    /// name of the chunk's varargs
    pub chunk_args: Vec<Value>,
    proxies: HashMap<String, Value>,
    /// overrides installed by monitors (C17): assert := identity etc.
    pub model_assert_identity: bool,
    /// model of convert_square_root_call: math.sqrt(x) behaves as x ^ 0.5
    pub sqrt_is_pow: bool,
}

const B_PRINT: u16 = 1;
const B_EXT: u16 = 2;
const B_EXT2: u16 = 3;
const B_EXT0: u16 = 4;
const B_EXTM: u16 = 5;
const B_EXTB: u16 = 6;
const B_EXTS: u16 = 7;
const B_EXTT: u16 = 8;
const B_SINK: u16 = 9;
const B_SELECT: u16 = 10;
const B_TYPE: u16 = 11;
const B_TOSTRING: u16 = 12;
const B_TONUMBER: u16 = 13;
const B_PAIRS: u16 = 14;
const B_IPAIRS: u16 = 15;
const B_NEXT: u16 = 16;
const B_SETMT: u16 = 17;
const B_GETMT: u16 = 18;
const B_RAWGET: u16 = 19;
const B_RAWSET: u16 = 20;
const B_RAWEQUAL: u16 = 21;
const B_RAWLEN: u16 = 22;
const B_UNPACK: u16 = 23;
const B_ERROR: u16 = 24;
const B_PCALL: u16 = 25;
const B_ASSERT: u16 = 26;
const B_IPAIRS_ITER: u16 = 27;
const B_REQUIRE: u16 = 28;
const B_TYPEOF: u16 = 29;
const B_M_FLOOR: u16 = 40;
const B_M_SQRT: u16 = 41;
const B_M_ABS: u16 = 42;
const B_M_MAX: u16 = 43;
const B_M_MIN: u16 = 44;
const B_M_CEIL: u16 = 45;
const B_M_FMOD: u16 = 46;
const B_M_POW: u16 = 47;
const B_S_FORMAT: u16 = 60;
const B_S_REP: u16 = 61;
const B_S_SUB: u16 = 62;
const B_S_LEN: u16 = 63;
const B_S_BYTE: u16 = 64;
const B_S_CHAR: u16 = 65;
const B_S_UPPER: u16 = 66;
const B_S_LOWER: u16 = 67;
const B_S_REVERSE: u16 = 68;
const B_T_INSERT: u16 = 80;
const B_T_CONCAT: u16 = 81;
const B_T_REMOVE: u16 = 82;
const B_T_PACK: u16 = 83;
const B_D_PROFBEGIN: u16 = 90;
const B_D_PROFEND: u16 = 91;
const B_HOSTILE_MM: u16 = 100; // 100.. : metamethods of hostile objects (index into HOSTILE_MMS)
const B_ASSERT_IDENTITY: u16 = 200;
const B_NOOP: u16 = 201;

const HOSTILE_MMS: [&str; 17] = ["__index", "__newindex", "__call", "__add", "__sub", "__mul", "__div", "__mod", "__pow", "__unm", "__concat", "__len", "__eq", "__lt", "__le", "__tostring", "__idiv"];

fn bi(id: u16, name: &'static str) -> Value {
    Value::Builtin(Builtin { id, name })
}

impl Drop for Interp {
    fn drop(&mut self) {
        // release this interpreter's own roots, then break the reference cycles among what it allocated
        self.proxies.clear();
        self.require_hook = None;
        self.chunk_args.clear();
        super::value::interp_dropped();
    }
}

impl Interp {
    pub fn new(dialect: Dialect, fuel: i64) -> Interp {
        super::value::interp_created();
        let mut it = Interp {
            dialect,
            fuel_start: fuel,
            fuel,
            log: vec![],
            uncertain: None,
            next_id: 1,
            ext_calls: 0,
            hostile_count: 0,
            globals: TableObj::alloc(0, 0),
            string_lib: TableObj::alloc(0, 0),
            hostile_mt: TableObj::alloc(0, 0),
            depth: 0,
            universal: false,
            max_log: 4000,
            require_hook: None,
            chunk_args: vec![],
            proxies: HashMap::new(),
            model_assert_identity: false,
            sqrt_is_pow: false,
        };
        it.globals = it.new_table();
        it.string_lib = it.new_table();
        it.hostile_mt = it.new_table();
        it.install_stdlib();
        it
    }

    pub fn new_table(&mut self) -> Rc<TableObj> {
        let id = self.next_id;
        self.next_id += 1;
        TableObj::alloc(id, 0)
    }

    fn setg(&self, name: &str, v: Value) {
        self.globals.data.borrow_mut().set(&Value::str(name), v);
    }
    pub fn set_global(&self, name: &str, v: Value) {
        self.setg(name, v)
    }
    pub fn get_global(&self, name: &str) -> Value {
        self.globals.data.borrow().get_str(name)
    }

    fn install_stdlib(&mut self) {
        for (n, id) in [
            ("print", B_PRINT),
            ("ext", B_EXT),
            ("ext2", B_EXT2),
            ("ext0", B_EXT0),
            ("extm", B_EXTM),
            ("extb", B_EXTB),
            ("exts", B_EXTS),
            ("extt", B_EXTT),
            ("sink", B_SINK),
            ("select", B_SELECT),
            ("type", B_TYPE),
            ("tostring", B_TOSTRING),
            ("tonumber", B_TONUMBER),
            ("pairs", B_PAIRS),
            ("ipairs", B_IPAIRS),
            ("next", B_NEXT),
            ("setmetatable", B_SETMT),
            ("getmetatable", B_GETMT),
            ("rawget", B_RAWGET),
            ("rawset", B_RAWSET),
            ("rawequal", B_RAWEQUAL),
            ("rawlen", B_RAWLEN),
            ("unpack", B_UNPACK),
            ("error", B_ERROR),
            ("pcall", B_PCALL),
            ("assert", B_ASSERT),
            ("require", B_REQUIRE),
        ] {
            // leak-free static names: the names above are 'static literals
            self.setg(n, bi(id, n));
        }
        if self.dialect == Dialect::Luau {
            self.setg("typeof", bi(B_TYPEOF, "typeof"));
        }
        let math = self.new_table();
        {
            let mut d = math.data.borrow_mut();
            for (n, id) in [("floor", B_M_FLOOR), ("sqrt", B_M_SQRT), ("abs", B_M_ABS), ("max", B_M_MAX), ("min", B_M_MIN), ("ceil", B_M_CEIL), ("fmod", B_M_FMOD), ("pow", B_M_POW)] {
                d.set(&Value::str(n), bi(id, n));
            }
            d.set(&Value::str("huge"), Value::Num(f64::INFINITY));
            d.set(&Value::str("pi"), Value::Num(std::f64::consts::PI));
        }
        self.setg("math", Value::Table(math));
        {
            let mut d = self.string_lib.data.borrow_mut();
            for (n, id) in [("format", B_S_FORMAT), ("rep", B_S_REP), ("sub", B_S_SUB), ("len", B_S_LEN), ("byte", B_S_BYTE), ("char", B_S_CHAR), ("upper", B_S_UPPER), ("lower", B_S_LOWER), ("reverse", B_S_REVERSE)] {
                d.set(&Value::str(n), bi(id, n));
            }
        }
        self.setg("string", Value::Table(self.string_lib.clone()));
        let table = self.new_table();
        {
            let mut d = table.data.borrow_mut();
            for (n, id) in [("insert", B_T_INSERT), ("concat", B_T_CONCAT), ("remove", B_T_REMOVE), ("unpack", B_UNPACK), ("pack", B_T_PACK)] {
                d.set(&Value::str(n), bi(id, n));
            }
        }
        self.setg("table", Value::Table(table));
        let debug = self.new_table();
        {
            let mut d = debug.data.borrow_mut();
            d.set(&Value::str("profilebegin"), bi(B_D_PROFBEGIN, "profilebegin"));
            d.set(&Value::str("profileend"), bi(B_D_PROFEND, "profileend"));
        }
        self.setg("debug", Value::Table(debug));
        self.setg("_G", Value::Table(self.globals.clone()));
        self.setg("_VERSION", Value::str(if self.dialect == Dialect::Luau { "Luau" } else { "Lua 5.1" }));
        // metatable shared by all hostile objects
        {
            let mut d = self.hostile_mt.data.borrow_mut();
            for (i, n) in HOSTILE_MMS.iter().enumerate() {
                d.set(&Value::str(n), bi(B_HOSTILE_MM + i as u16, n));
            }
        }
    }

    /// C17 model: `assert` returns its arguments
    pub fn install_assert_identity(&mut self) {
        self.setg("assert", bi(B_ASSERT_IDENTITY, "assert"));
    }
    /// C17 model: debug.profilebegin / profileend are no-ops (they already are; kept explicit)
    pub fn install_profiling_noops(&mut self) {
        if let Value::Table(d) = self.get_global("debug") {
            d.data.borrow_mut().set(&Value::str("profilebegin"), bi(B_NOOP, "profilebegin"));
            d.data.borrow_mut().set(&Value::str("profileend"), bi(B_NOOP, "profileend"));
        }
    }

    fn mark_uncertain(&mut self, why: &str) {
        if self.uncertain.is_none() {
            self.uncertain = Some(why.to_string());
        }
    }

    fn burn(&mut self, n: i64) -> R<()> {
        self.fuel -= n;
        if self.fuel < 0 {
            Err(Ctl::Fuel)
        } else {
            Ok(())
        }
    }

    /// runaway string growth counts as running out of fuel
    fn charge_str(&mut self, len: usize) -> R<()> {
        if len > 1 << 20 {
            return Err(Ctl::Fuel);
        }
        self.burn((len / 256) as i64)
    }

    fn emit(&mut self, line: String) -> R<()> {
        if self.log.len() >= self.max_log {
            return Err(Ctl::Fuel);
        }
        self.log.push(line);
        Ok(())
    }

    // ------------------------------------------------------------------ running

    pub fn run_chunk(&mut self, block: &Block) -> Outcome {
        let scope = Scope::new(None);
        let args = self.chunk_args.clone();
        let r = self.exec_function_body(block, &scope, &args);
        let status = match r {
            Ok(vals) => {
                let mut out = vec![];
                for v in &vals {
                    out.push(self.serialize(v));
                }
                Status::Done(out)
            }
            Err(Ctl::Error { value, .. }) => Status::Error(self.serialize(&value)),
            Err(Ctl::Fuel) => Status::Fuel,
            Err(Ctl::Depth) => Status::Depth,
        };
        Outcome { status, log: std::mem::take(&mut self.log), uncertain: self.uncertain.clone(), steps: (self.fuel_start - self.fuel.max(0)) as u64 }
    }

    /// run a module body for a model `require`: fresh chunk scope, same globals, same event log,
    /// same fuel.  Returns every value the chunk returns, or the error text.
    pub fn run_module(&mut self, block: &Block) -> Result<Vec<Value>, String> {
        let scope = Scope::new(None);
        match self.exec_function_body(block, &scope, &[]) {
            Ok(v) => Ok(v),
            Err(Ctl::Error { value, .. }) => Err(format!("error in module: {}", self.serialize(&value))),
            Err(Ctl::Fuel) => {
                self.fuel = -1;
                Err("out of fuel in module".into())
            }
            Err(Ctl::Depth) => Err("call depth exceeded in module".into()),
        }
    }

    /// run a chunk and hand back the raw values (used to build preset globals)
    pub fn run_chunk_values(&mut self, block: &Block) -> Option<Vec<Value>> {
        let scope = Scope::new(None);
        self.exec_function_body(block, &scope, &[]).ok()
    }

    fn exec_function_body(&mut self, block: &Block, scope: &Rc<Scope>, varargs: &[Value]) -> R<Vec<Value>> {
        match self.exec_block(block, scope, varargs)? {
            Flow::Return(v) => Ok(v),
            _ => Ok(vec![]),
        }
    }

    fn exec_block(&mut self, block: &Block, parent: &Rc<Scope>, va: &[Value]) -> R<Flow> {
        let mut scope = Scope::new(Some(parent.clone()));
        self.exec_stmts(&block.stmts, &mut scope, va)
    }

    /// runs the statements; `scope` is advanced to a fresh nested scope at every `local`
    /// declaration so that closures created earlier do not see later locals
    fn exec_stmts(&mut self, stmts: &[Stmt], scope: &mut Rc<Scope>, va: &[Value]) -> R<Flow> {
        for s in stmts {
            match s {
                Stmt::Local { names, values, .. } => {
                    self.burn(1)?;
                    let vals = self.eval_list(values, scope, va)?;
                    let vals = Self::adjust(vals, names.len());
                    let inner = Scope::new(Some(scope.clone()));
                    for (n, v) in names.iter().zip(vals) {
                        inner.declare(&n.name, v);
                    }
                    *scope = inner;
                }
                Stmt::LocalFunction { name, func } => {
                    self.burn(1)?;
                    let inner = Scope::new(Some(scope.clone()));
                    inner.declare(name, Value::Nil);
                    let f = self.make_closure(func, &inner, false, name);
                    let cell = inner.lookup(name).unwrap();
                    *cell.borrow_mut() = f;
                    *scope = inner;
                }
                _ => match self.exec_stmt(s, scope, va)? {
                    Flow::Normal => {}
                    f => return Ok(f),
                },
            }
        }
        Ok(Flow::Normal)
    }

    fn adjust(mut vals: Vec<Value>, n: usize) -> Vec<Value> {
        vals.resize(n, Value::Nil);
        vals
    }

    fn eval_list(&mut self, es: &[Expr], scope: &Rc<Scope>, va: &[Value]) -> R<Vec<Value>> {
        let mut out = Vec::with_capacity(es.len());
        for (i, e) in es.iter().enumerate() {
            if i + 1 == es.len() && e.is_multi() {
                let mut m = self.eval_multi(e, scope, va)?;
                out.append(&mut m);
            } else {
                out.push(self.eval(e, scope, va)?);
            }
        }
        Ok(out)
    }

    fn make_closure(&mut self, f: &Rc<FuncBody>, scope: &Rc<Scope>, has_self: bool, name: &str) -> Value {
        let id = self.next_id;
        self.next_id += 1;
        Value::Func(Rc::new(Closure { id, proto: f.clone(), env: scope.clone(), has_self, name: name.to_string() }))
    }

    fn exec_stmt(&mut self, s: &Stmt, scope: &Rc<Scope>, va: &[Value]) -> R<Flow> {
        self.burn(1)?;
        match s {
            Stmt::Local { .. } | Stmt::LocalFunction { .. } => unreachable!("handled by exec_stmts"),
            Stmt::Assign { targets, values } => {
                // evaluate target prefixes / keys, then values, then store left to right
                enum T {
                    Local(Rc<RefCell<Value>>),
                    Global(String),
                    Index(Value, Value),
                }
                let mut ts = Vec::with_capacity(targets.len());
                for t in targets {
                    match t {
                        Expr::Name(n) => match scope.lookup(n) {
                            Some(c) => ts.push(T::Local(c)),
                            None => ts.push(T::Global(n.clone())),
                        },
                        Expr::Field(b, f) => {
                            let bv = self.eval(b, scope, va)?;
                            ts.push(T::Index(bv, Value::str(f)));
                        }
                        Expr::Index(b, k) => {
                            let bv = self.eval(b, scope, va)?;
                            let kv = self.eval(k, scope, va)?;
                            ts.push(T::Index(bv, kv));
                        }
                        _ => return rt_err("cannot assign"),
                    }
                }
                let vals = self.eval_list(values, scope, va)?;
                let vals = Self::adjust(vals, ts.len());
                for (t, v) in ts.into_iter().zip(vals) {
                    match t {
                        T::Local(c) => *c.borrow_mut() = v,
                        T::Global(n) => self.setg(&n, v),
                        T::Index(b, k) => self.set_index(&b, &k, v)?,
                    }
                }
            }
            Stmt::CompoundAssign { target, op, value } => {
                // prefix, key, read, rhs, operate, write — each once
                match target {
                    Expr::Name(n) => {
                        let cur = self.read_name(n, scope)?;
                        let rhs = self.eval(value, scope, va)?;
                        let r = self.binary(*op, cur, rhs)?;
                        match scope.lookup(n) {
                            Some(c) => *c.borrow_mut() = r,
                            None => self.setg(n, r),
                        }
                    }
                    Expr::Field(b, f) => {
                        let bv = self.eval(b, scope, va)?;
                        let k = Value::str(f);
                        let cur = self.index(&bv, &k)?;
                        let rhs = self.eval(value, scope, va)?;
                        let r = self.binary(*op, cur, rhs)?;
                        self.set_index(&bv, &k, r)?;
                    }
                    Expr::Index(b, k) => {
                        let bv = self.eval(b, scope, va)?;
                        let kv = self.eval(k, scope, va)?;
                        let cur = self.index(&bv, &kv)?;
                        let rhs = self.eval(value, scope, va)?;
                        let r = self.binary(*op, cur, rhs)?;
                        self.set_index(&bv, &kv, r)?;
                    }
                    _ => return rt_err("cannot assign"),
                }
            }
            Stmt::Call(e) => {
                self.eval_multi(e, scope, va)?;
            }
            Stmt::Do(b) => return self.exec_block(b, scope, va),
            Stmt::While { cond, body } => loop {
                self.burn(1)?;
                if !self.eval(cond, scope, va)?.truthy() {
                    break;
                }
                match self.exec_block(body, scope, va)? {
                    Flow::Break => break,
                    Flow::Return(v) => return Ok(Flow::Return(v)),
                    _ => {}
                }
            },
            Stmt::Repeat { body, cond } => loop {
                self.burn(1)?;
                // the condition sees the body's locals
                let mut inner = Scope::new(Some(scope.clone()));
                match self.exec_stmts(&body.stmts, &mut inner, va)? {
                    Flow::Break => break,
                    Flow::Return(v) => return Ok(Flow::Return(v)),
                    _ => {}
                }
                if self.eval(cond, &inner, va)?.truthy() {
                    break;
                }
            },
            Stmt::If { clauses, else_block } => {
                for (c, b) in clauses {
                    if self.eval(c, scope, va)?.truthy() {
                        return self.exec_block(b, scope, va);
                    }
                }
                if let Some(b) = else_block {
                    return self.exec_block(b, scope, va);
                }
            }
            Stmt::NumFor { var, start, limit, step, body } => {
                let a = self.eval(start, scope, va)?;
                let b = self.eval(limit, scope, va)?;
                let c = match step {
                    Some(s) => self.eval(s, scope, va)?,
                    None => Value::Num(1.0),
                };
                let (a, b, c) = match (self.to_number(&a), self.to_number(&b), self.to_number(&c)) {
                    (Some(a), Some(b), Some(c)) => (a, b, c),
                    _ => return rt_err("'for' initial value, limit and step must be numbers"),
                };
                if c == 0.0 {
                    self.mark_uncertain("numeric for with step 0");
                    return Err(Ctl::Fuel);
                }
                let mut i = a;
                loop {
                    self.burn(1)?;
                    if (c > 0.0 && i > b) || (c < 0.0 && i < b) || i.is_nan() || b.is_nan() {
                        break;
                    }
                    let mut inner = Scope::new(Some(scope.clone()));
                    inner.declare(&var.name, Value::Num(i));
                    match self.exec_stmts(&body.stmts, &mut inner, va)? {
                        Flow::Break => break,
                        Flow::Return(v) => return Ok(Flow::Return(v)),
                        _ => {}
                    }
                    i += c;
                }
            }
            Stmt::GenFor { vars, exprs, body } => {
                let vals = self.eval_list(exprs, scope, va)?;
                let mut vals = Self::adjust(vals, 3);
                let mut ctl = vals.pop().unwrap();
                let mut st = vals.pop().unwrap();
                let mut f = vals.pop().unwrap();
                // Luau generalised iteration
                if let Value::Table(t) = &f {
                    let has_call = self.metamethod(&f, "__call").is_some();
                    if !has_call {
                        if self.dialect == Dialect::Luau {
                            if self.metamethod(&f, "__iter").is_some() {
                                self.mark_uncertain("__iter");
                            }
                            st = Value::Table(t.clone());
                            f = bi(B_NEXT, "next");
                            ctl = Value::Nil;
                        } else {
                            return rt_err("attempt to call a table value");
                        }
                    }
                }
                loop {
                    self.burn(1)?;
                    let rs = self.call(&f, vec![st.clone(), ctl.clone()])?;
                    let rs = Self::adjust(rs, vars.len().max(1));
                    if matches!(rs[0], Value::Nil) {
                        break;
                    }
                    ctl = rs[0].clone();
                    let mut inner = Scope::new(Some(scope.clone()));
                    for (v, val) in vars.iter().zip(rs.into_iter()) {
                        inner.declare(&v.name, val);
                    }
                    match self.exec_stmts(&body.stmts, &mut inner, va)? {
                        Flow::Break => break,
                        Flow::Return(v) => return Ok(Flow::Return(v)),
                        _ => {}
                    }
                }
            }
            Stmt::Function { name, func } => {
                let f = self.make_closure(func, scope, name.method.is_some(), &name.base);
                if name.fields.is_empty() && name.method.is_none() {
                    match scope.lookup(&name.base) {
                        Some(c) => *c.borrow_mut() = f,
                        None => self.setg(&name.base, f),
                    }
                } else {
                    let mut cur = self.read_name(&name.base, scope)?;
                    let mut path: Vec<&String> = name.fields.iter().collect();
                    if let Some(m) = &name.method {
                        path.push(m);
                    }
                    let last = path.pop().unwrap();
                    for p in path {
                        cur = self.index(&cur, &Value::str(p))?;
                    }
                    self.set_index(&cur, &Value::str(last), f)?;
                }
            }
            Stmt::Return(es) => {
                if es.len() == 1 {
                    // (tail) call: no special handling besides multi values
                }
                let vals = self.eval_list(es, scope, va)?;
                return Ok(Flow::Return(vals));
            }
            Stmt::Break => return Ok(Flow::Break),
            Stmt::Continue => return Ok(Flow::Continue),
            Stmt::TypeDecl { .. } | Stmt::TypeFunction { .. } => {}
        }
        Ok(Flow::Normal)
    }

    fn read_name(&mut self, n: &str, scope: &Rc<Scope>) -> R<Value> {
        if let Some(c) = scope.lookup(n) {
            return Ok(c.borrow().clone());
        }
        let v = self.globals.data.borrow().get_str(n);
        if matches!(v, Value::Nil) && self.universal {
            return Ok(self.proxy_for_global(n));
        }
        Ok(v)
    }

    fn proxy_for_global(&mut self, n: &str) -> Value {
        if let Some(p) = self.proxies.get(n) {
            return p.clone();
        }
        let p = self.new_proxy(n.to_string());
        self.proxies.insert(n.to_string(), p.clone());
        p
    }

    fn new_proxy(&mut self, name: String) -> Value {
        let id = self.next_id;
        self.next_id += 1;
        let name = if name.len() > 60 { format!("{}…", &name[..name.char_indices().nth(40).map(|x| x.0).unwrap_or(0)]) } else { name };
        Value::Proxy(Rc::new(ProxyObj { id, name }))
    }

    pub fn eval(&mut self, e: &Expr, scope: &Rc<Scope>, va: &[Value]) -> R<Value> {
        self.burn(1)?;
        Ok(match e {
            Expr::Nil => Value::Nil,
            Expr::True => Value::Bool(true),
            Expr::False => Value::Bool(false),
            Expr::Number(v, _) => Value::Num(*v),
            Expr::Str(b, _) => Value::bytes(b),
            Expr::Vararg => va.first().cloned().unwrap_or(Value::Nil),
            Expr::Function(f) => self.make_closure(f, scope, false, "anonymous"),
            Expr::Name(n) => self.read_name(n, scope)?,
            Expr::Index(b, k) => {
                let bv = self.eval(b, scope, va)?;
                let kv = self.eval(k, scope, va)?;
                self.index(&bv, &kv)?
            }
            Expr::Field(b, f) => {
                let bv = self.eval(b, scope, va)?;
                self.index(&bv, &Value::str(f))?
            }
            Expr::Call { .. } | Expr::MethodCall { .. } => self.eval_multi(e, scope, va)?.into_iter().next().unwrap_or(Value::Nil),
            Expr::Binary(op, l, r) => match op {
                BinOp::And => {
                    let lv = self.eval(l, scope, va)?;
                    if lv.truthy() {
                        self.eval(r, scope, va)?
                    } else {
                        lv
                    }
                }
                BinOp::Or => {
                    let lv = self.eval(l, scope, va)?;
                    if lv.truthy() {
                        lv
                    } else {
                        self.eval(r, scope, va)?
                    }
                }
                _ => {
                    let lv = self.eval(l, scope, va)?;
                    let rv = self.eval(r, scope, va)?;
                    self.binary(*op, lv, rv)?
                }
            },
            Expr::Unary(op, a) => {
                let v = self.eval(a, scope, va)?;
                self.unary(*op, v)?
            }
            Expr::Paren(a) => self.eval(a, scope, va)?,
            Expr::Table(items) => {
                let t = self.new_table();
                let mut pos = 1.0;
                for (i, it) in items.iter().enumerate() {
                    match it {
                        TableItem::Pos(v) => {
                            if i + 1 == items.len() && v.is_multi() {
                                let vals = self.eval_multi(v, scope, va)?;
                                let mut d = t.data.borrow_mut();
                                for x in vals {
                                    d.set(&Value::Num(pos), x);
                                    pos += 1.0;
                                }
                            } else {
                                let x = self.eval(v, scope, va)?;
                                t.data.borrow_mut().set(&Value::Num(pos), x);
                                pos += 1.0;
                            }
                        }
                        TableItem::Named(n, v) => {
                            let x = self.eval(v, scope, va)?;
                            t.data.borrow_mut().set(&Value::str(n), x);
                        }
                        TableItem::Keyed(k, v) => {
                            let kv = self.eval(k, scope, va)?;
                            let x = self.eval(v, scope, va)?;
                            match &kv {
                                Value::Nil => return rt_err("table index is nil"),
                                Value::Num(n) if n.is_nan() => return rt_err("table index is NaN"),
                                _ => {}
                            }
                            t.data.borrow_mut().set(&kv, x);
                        }
                    }
                }
                Value::Table(t)
            }
            Expr::IfExpr { clauses, else_ } => {
                for (c, v) in clauses {
                    if self.eval(c, scope, va)?.truthy() {
                        return self.eval(v, scope, va);
                    }
                }
                self.eval(else_, scope, va)?
            }
            Expr::Interp(parts) => {
                let mut out: Vec<u8> = vec![];
                for p in parts {
                    match p {
                        InterpPart::Str(b) => out.extend_from_slice(b),
                        InterpPart::Expr(e) => {
                            let v = self.eval(e, scope, va)?;
                            let s = self.tostring(&v)?;
                            out.extend_from_slice(&s);
                            self.charge_str(out.len())?;
                        }
                    }
                }
                Value::bytes(&out)
            }
            Expr::Cast(a, _) => self.eval(a, scope, va)?,
            Expr::TypeInstantiation(a, _) => self.eval(a, scope, va)?,
        })
    }

    pub fn eval_multi(&mut self, e: &Expr, scope: &Rc<Scope>, va: &[Value]) -> R<Vec<Value>> {
        match e {
            Expr::Vararg => {
                self.burn(1)?;
                Ok(va.to_vec())
            }
            Expr::Call { func, args, .. } => {
                self.burn(1)?;
                let f = self.eval(func, scope, va)?;
                let argv = self.eval_list(args, scope, va)?;
                self.call(&f, argv)
            }
            Expr::MethodCall { obj, name, args, .. } => {
                self.burn(1)?;
                let o = self.eval(obj, scope, va)?;
                let f = self.index(&o, &Value::str(name))?;
                let mut argv = vec![o];
                let mut rest = self.eval_list(args, scope, va)?;
                argv.append(&mut rest);
                self.call(&f, argv)
            }
            _ => Ok(vec![self.eval(e, scope, va)?]),
        }
    }

    // ------------------------------------------------------------------ operations

    pub fn metamethod(&self, v: &Value, name: &str) -> Option<Value> {
        if let Value::Table(t) = v {
            let d = t.data.borrow();
            if let Some(m) = &d.meta {
                let mm = m.data.borrow().get_str(name);
                if !matches!(mm, Value::Nil) {
                    return Some(mm);
                }
            }
        }
        None
    }

    pub fn index(&mut self, base: &Value, key: &Value) -> R<Value> {
        let mut cur = base.clone();
        for _ in 0..100 {
            match &cur {
                Value::Table(t) => {
                    let raw = t.data.borrow().get(key);
                    if !matches!(raw, Value::Nil) {
                        return Ok(raw);
                    }
                    match self.metamethod(&cur, "__index") {
                        None => return Ok(Value::Nil),
                        Some(h @ (Value::Func(_) | Value::Builtin(_))) => {
                            let r = self.call(&h, vec![cur.clone(), key.clone()])?;
                            return Ok(r.into_iter().next().unwrap_or(Value::Nil));
                        }
                        Some(next) => cur = next,
                    }
                }
                Value::Str(_) => {
                    return Ok(self.string_lib.data.borrow().get(key));
                }
                Value::Proxy(p) => {
                    let ks = self.serialize(key);
                    let name = format!("{}[{}]", p.name, ks);
                    self.emit(format!("proxy-index {} {}", p.name, ks))?;
                    return Ok(self.new_proxy(name));
                }
                other => {
                    return rt_err(&format!("attempt to index a {} value", other.type_name()));
                }
            }
        }
        rt_err("'__index' chain too long; possible loop")
    }

    pub fn set_index(&mut self, base: &Value, key: &Value, v: Value) -> R<()> {
        let mut cur = base.clone();
        for _ in 0..100 {
            match &cur {
                Value::Table(t) => {
                    let raw = t.data.borrow().get(key);
                    let mm = if matches!(raw, Value::Nil) { self.metamethod(&cur, "__newindex") } else { None };
                    match mm {
                        None => {
                            match key {
                                Value::Nil => return rt_err("table index is nil"),
                                Value::Num(n) if n.is_nan() => return rt_err("table index is NaN"),
                                _ => {}
                            }
                            t.data.borrow_mut().set(key, v);
                            return Ok(());
                        }
                        Some(h @ (Value::Func(_) | Value::Builtin(_))) => {
                            self.call(&h, vec![cur.clone(), key.clone(), v])?;
                            return Ok(());
                        }
                        Some(next) => cur = next,
                    }
                }
                Value::Proxy(p) => {
                    let ks = self.serialize(key);
                    let vs = self.serialize(&v);
                    self.emit(format!("proxy-newindex {} {} {}", p.name, ks, vs))?;
                    return Ok(());
                }
                other => return rt_err(&format!("attempt to index a {} value", other.type_name())),
            }
        }
        rt_err("'__newindex' chain too long; possible loop")
    }

    pub fn to_number(&mut self, v: &Value) -> Option<f64> {
        match v {
            Value::Num(n) => Some(*n),
            Value::Str(s) => match str_to_number(s) {
                Ok(x) => x,
                Err(LitError::Uncertain(w)) | Err(LitError::Invalid(w)) => {
                    self.mark_uncertain(&format!("string->number: {}", w));
                    None
                }
            },
            _ => None,
        }
    }

    fn arith_raw(&self, op: BinOp, a: f64, b: f64) -> f64 {
        match op {
            BinOp::Add => a + b,
            BinOp::Sub => a - b,
            BinOp::Mul => a * b,
            BinOp::Div => a / b,
            BinOp::IDiv => (a / b).floor(),
            BinOp::Pow => pow(a, b),
            BinOp::Mod => {
                if self.dialect == Dialect::L51 {
                    a - (a / b).floor() * b
                } else {
                    let m = a % b; // fmod
                    if (m > 0.0 && b < 0.0) || (m < 0.0 && b > 0.0) {
                        m + b
                    } else {
                        m
                    }
                }
            }
            _ => f64::NAN,
        }
    }

    pub fn binary(&mut self, op: BinOp, l: Value, r: Value) -> R<Value> {
        match op {
            BinOp::Add | BinOp::Sub | BinOp::Mul | BinOp::Div | BinOp::Mod | BinOp::Pow | BinOp::IDiv => {
                if let (Value::Num(a), Value::Num(b)) = (&l, &r) {
                    return Ok(Value::Num(self.arith_raw(op, *a, *b)));
                }
                if op == BinOp::IDiv {
                    // the documented lowering `math.floor(a / b)` is only meant for numbers (DESIGN.md A8)
                    self.mark_uncertain("floor division on a non-number");
                }
                if matches!(l, Value::Proxy(_)) || matches!(r, Value::Proxy(_)) {
                    return self.proxy_op(op.text(), &[l, r]);
                }
                let la = if matches!(l, Value::Num(_) | Value::Str(_)) { self.to_number(&l) } else { None };
                let ra = if matches!(r, Value::Num(_) | Value::Str(_)) { self.to_number(&r) } else { None };
                if let (Some(a), Some(b)) = (la, ra) {
                    return Ok(Value::Num(self.arith_raw(op, a, b)));
                }
                let name = match op {
                    BinOp::Add => "__add",
                    BinOp::Sub => "__sub",
                    BinOp::Mul => "__mul",
                    BinOp::Div => "__div",
                    BinOp::Mod => "__mod",
                    BinOp::Pow => "__pow",
                    _ => "__idiv",
                };
                let h = self.metamethod(&l, name).or_else(|| self.metamethod(&r, name));
                match h {
                    Some(h) => {
                        let rs = self.call(&h, vec![l, r])?;
                        Ok(rs.into_iter().next().unwrap_or(Value::Nil))
                    }
                    None => {
                        let bad = if la.is_none() { &l } else { &r };
                        rt_err(&format!("attempt to perform arithmetic on a {} value", bad.type_name()))
                    }
                }
            }
            BinOp::Concat => {
                let ok = |v: &Value| matches!(v, Value::Str(_) | Value::Num(_));
                if ok(&l) && ok(&r) {
                    let mut out = self.tostring_basic(&l);
                    out.extend_from_slice(&self.tostring_basic(&r));
                    self.charge_str(out.len())?;
                    return Ok(Value::bytes(&out));
                }
                if matches!(l, Value::Proxy(_)) || matches!(r, Value::Proxy(_)) {
                    return self.proxy_op("..", &[l, r]);
                }
                let h = self.metamethod(&l, "__concat").or_else(|| self.metamethod(&r, "__concat"));
                match h {
                    Some(h) => {
                        let rs = self.call(&h, vec![l, r])?;
                        Ok(rs.into_iter().next().unwrap_or(Value::Nil))
                    }
                    None => {
                        let bad = if ok(&l) { &r } else { &l };
                        rt_err(&format!("attempt to concatenate a {} value", bad.type_name()))
                    }
                }
            }
            BinOp::Eq => Ok(Value::Bool(self.equals(&l, &r)?)),
            BinOp::Ne => Ok(Value::Bool(!self.equals(&l, &r)?)),
            BinOp::Lt => Ok(Value::Bool(self.less(&l, &r, false)?)),
            BinOp::Le => Ok(Value::Bool(self.less(&l, &r, true)?)),
            BinOp::Gt => Ok(Value::Bool(self.less(&r, &l, false)?)),
            BinOp::Ge => Ok(Value::Bool(self.less(&r, &l, true)?)),
            BinOp::And | BinOp::Or => unreachable!(),
        }
    }

    fn proxy_op(&mut self, op: &str, args: &[Value]) -> R<Value> {
        let parts: Vec<String> = args.iter().map(|a| self.serialize(a)).collect();
        self.emit(format!("proxy-op {} {}", op, parts.join(" ")))?;
        let name = format!("({})", op);
        Ok(self.new_proxy(name))
    }

    fn equals(&mut self, l: &Value, r: &Value) -> R<bool> {
        if l.raw_equals(r) {
            return Ok(true);
        }
        if let (Value::Table(_), Value::Table(_)) = (l, r) {
            let h1 = self.metamethod(l, "__eq");
            let h2 = self.metamethod(r, "__eq");
            let h = match (h1, h2) {
                (Some(a), Some(b)) => {
                    if !a.raw_equals(&b) {
                        self.mark_uncertain("__eq handlers differ");
                    }
                    Some(a)
                }
                (Some(a), None) | (None, Some(a)) => {
                    self.mark_uncertain("__eq on one side only");
                    Some(a)
                }
                _ => None,
            };
            if let Some(h) = h {
                let rs = self.call(&h, vec![l.clone(), r.clone()])?;
                return Ok(rs.into_iter().next().unwrap_or(Value::Nil).truthy());
            }
        }
        Ok(false)
    }

    fn less(&mut self, l: &Value, r: &Value, or_equal: bool) -> R<bool> {
        match (l, r) {
            (Value::Num(a), Value::Num(b)) => Ok(if or_equal { a <= b } else { a < b }),
            (Value::Str(a), Value::Str(b)) => Ok(if or_equal { a <= b } else { a < b }),
            _ => {
                if matches!(l, Value::Proxy(_)) || matches!(r, Value::Proxy(_)) {
                    let v = self.proxy_op(if or_equal { "<=" } else { "<" }, &[l.clone(), r.clone()])?;
                    let _ = v;
                    return Ok(false);
                }
                let name = if or_equal { "__le" } else { "__lt" };
                let h = self.metamethod(l, name).or_else(|| self.metamethod(r, name));
                if let Some(h) = h {
                    let rs = self.call(&h, vec![l.clone(), r.clone()])?;
                    return Ok(rs.into_iter().next().unwrap_or(Value::Nil).truthy());
                }
                if or_equal {
                    // 5.1 falls back to not (r < l); Luau does not
                    if self.metamethod(r, "__lt").or_else(|| self.metamethod(l, "__lt")).is_some() {
                        self.mark_uncertain("__le fallback to __lt");
                    }
                }
                rt_err(&format!("attempt to compare {} with {}", l.type_name(), r.type_name()))
            }
        }
    }

    pub fn unary(&mut self, op: UnOp, v: Value) -> R<Value> {
        match op {
            UnOp::Not => Ok(Value::Bool(!v.truthy())),
            UnOp::Neg => {
                if let Value::Num(n) = v {
                    return Ok(Value::Num(-n));
                }
                if let Value::Str(_) = v {
                    if let Some(n) = self.to_number(&v) {
                        return Ok(Value::Num(-n));
                    }
                }
                if matches!(v, Value::Proxy(_)) {
                    return self.proxy_op("neg", &[v]);
                }
                match self.metamethod(&v, "__unm") {
                    Some(h) => {
                        let rs = self.call(&h, vec![v.clone(), v])?;
                        Ok(rs.into_iter().next().unwrap_or(Value::Nil))
                    }
                    None => rt_err(&format!("attempt to perform arithmetic on a {} value", v.type_name())),
                }
            }
            UnOp::Len => match &v {
                Value::Str(s) => Ok(Value::Num(s.len() as f64)),
                Value::Table(t) => {
                    if let Some(h) = self.metamethod(&v, "__len") {
                        if self.dialect == Dialect::Luau {
                            let rs = self.call(&h, vec![v.clone()])?;
                            return Ok(rs.into_iter().next().unwrap_or(Value::Nil));
                        }
                    }
                    match t.data.borrow().length() {
                        Some(n) => Ok(Value::Num(n as f64)),
                        None => {
                            self.mark_uncertain("length of a table with holes");
                            Ok(Value::Num(t.data.borrow().arr.len() as f64))
                        }
                    }
                }
                Value::Proxy(_) => self.proxy_op("#", &[v]),
                other => rt_err(&format!("attempt to get length of a {} value", other.type_name())),
            },
        }
    }

    fn num_to_bytes(&mut self, n: f64) -> Vec<u8> {
        match self.dialect {
            Dialect::L51 => numfmt::fmt_l51(n).into_bytes(),
            Dialect::Luau => {
                let (s, certain) = numfmt::fmt_luau(n);
                if !certain {
                    self.mark_uncertain("number formatting in the uncertainty band");
                }
                s.into_bytes()
            }
        }
    }

    fn tostring_basic(&mut self, v: &Value) -> Vec<u8> {
        match v {
            Value::Str(s) => s.to_vec(),
            Value::Num(n) => {
                if n.is_nan() {
                    self.mark_uncertain("tostring(nan)");
                }
                self.num_to_bytes(*n)
            }
            _ => vec![],
        }
    }

    pub fn tostring(&mut self, v: &Value) -> R<Vec<u8>> {
        Ok(match v {
            Value::Nil => b"nil".to_vec(),
            Value::Bool(b) => if *b { b"true".to_vec() } else { b"false".to_vec() },
            Value::Num(_) | Value::Str(_) => self.tostring_basic(v),
            Value::Table(t) => {
                if let Some(h) = self.metamethod(v, "__tostring") {
                    let rs = self.call(&h, vec![v.clone()])?;
                    match rs.into_iter().next() {
                        Some(Value::Str(s)) => s.to_vec(),
                        Some(Value::Num(n)) => {
                            self.mark_uncertain("__tostring returning a number");
                            self.num_to_bytes(n)
                        }
                        _ => return rt_err("'__tostring' must return a string"),
                    }
                } else {
                    self.mark_uncertain("tostring of a table (address)");
                    format!("table: {}", t.id).into_bytes()
                }
            }
            Value::Func(_) | Value::Builtin(_) => {
                self.mark_uncertain("tostring of a function (address)");
                b"function: ?".to_vec()
            }
            Value::Proxy(p) => {
                self.emit(format!("proxy-tostring {}", p.name))?;
                format!("<{}>", p.name).into_bytes()
            }
        })
    }

    // ------------------------------------------------------------------ calls

    pub fn call(&mut self, f: &Value, args: Vec<Value>) -> R<Vec<Value>> {
        self.burn(1)?;
        match f {
            Value::Func(c) => {
                self.depth += 1;
                if self.depth > 150 {
                    self.depth -= 1;
                    return Err(Ctl::Depth);
                }
                let mut scope = Scope::new(Some(c.env.clone()));
                let proto = c.proto.clone();
                let mut it = args.into_iter();
                if c.has_self {
                    scope.declare("self", it.next().unwrap_or(Value::Nil));
                }
                for p in &proto.params {
                    scope.declare(&p.name, it.next().unwrap_or(Value::Nil));
                }
                let va: Vec<Value> = if proto.is_vararg { it.collect() } else { vec![] };
                let r = self.exec_stmts(&proto.body.stmts, &mut scope, &va);
                self.depth -= 1;
                match r? {
                    Flow::Return(v) => Ok(v),
                    _ => Ok(vec![]),
                }
            }
            Value::Builtin(b) => {
                self.depth += 1;
                if self.depth > 150 {
                    self.depth -= 1;
                    return Err(Ctl::Depth);
                }
                let r = self.call_builtin(*b, args);
                self.depth -= 1;
                r
            }
            Value::Table(_) => match self.metamethod(f, "__call") {
                Some(h) => {
                    let mut a = vec![f.clone()];
                    a.extend(args);
                    self.call(&h, a)
                }
                None => rt_err("attempt to call a table value"),
            },
            Value::Proxy(p) => {
                let parts: Vec<String> = args.iter().map(|a| self.serialize(a)).collect();
                self.emit(format!("proxy-call {}({})", p.name, parts.join(",")))?;
                let name = format!("{}()", p.name);
                Ok(vec![self.new_proxy(name)])
            }
            other => rt_err(&format!("attempt to call a {} value", other.type_name())),
        }
    }

    fn log_call(&mut self, name: &str, args: &[Value]) -> R<()> {
        let parts: Vec<String> = args.iter().map(|a| self.serialize(a)).collect();
        self.emit(format!("{}({})", name, parts.join(",")))
    }

    fn arg_num(&mut self, args: &[Value], i: usize, fname: &str) -> R<f64> {
        match args.get(i) {
            Some(v) => match self.to_number(v) {
                Some(n) => Ok(n),
                None => rt_err(&format!("bad argument #{} to '{}' (number expected)", i + 1, fname)),
            },
            None => rt_err(&format!("bad argument #{} to '{}' (number expected, got no value)", i + 1, fname)),
        }
    }

    fn arg_str(&mut self, args: &[Value], i: usize, fname: &str) -> R<Vec<u8>> {
        match args.get(i) {
            Some(Value::Str(s)) => Ok(s.to_vec()),
            Some(Value::Num(n)) => Ok(self.num_to_bytes(*n)),
            _ => rt_err(&format!("bad argument #{} to '{}' (string expected)", i + 1, fname)),
        }
    }

    fn arg_table(&mut self, args: &[Value], i: usize, fname: &str) -> R<Rc<TableObj>> {
        match args.get(i) {
            Some(Value::Table(t)) => Ok(t.clone()),
            _ => rt_err(&format!("bad argument #{} to '{}' (table expected)", i + 1, fname)),
        }
    }

    fn new_hostile(&mut self) -> Value {
        self.hostile_count += 1;
        let id = self.next_id;
        self.next_id += 1;
        let t = TableObj::alloc(id, self.hostile_count);
        t.data.borrow_mut().meta = Some(self.hostile_mt.clone());
        Value::Table(t)
    }

    fn call_builtin(&mut self, b: Builtin, args: Vec<Value>) -> R<Vec<Value>> {
        let id = b.id;
        if id >= B_HOSTILE_MM && id < B_HOSTILE_MM + HOSTILE_MMS.len() as u16 {
            let name = HOSTILE_MMS[(id - B_HOSTILE_MM) as usize];
            self.log_call(&format!("mm:{}", name), &args)?;
            self.ext_calls += 1;
            let n = self.ext_calls as f64;
            return Ok(match name {
                "__newindex" => vec![],
                "__eq" | "__lt" | "__le" => vec![Value::Bool(self.ext_calls % 2 == 0)],
                "__concat" | "__tostring" => vec![Value::str(&format!("h{}", self.ext_calls))],
                _ => vec![Value::Num(n)],
            });
        }
        match id {
            B_PRINT | B_SINK => {
                self.log_call(b.name, &args)?;
                Ok(vec![])
            }
            B_EXT => {
                self.log_call("ext", &args)?;
                self.ext_calls += 1;
                Ok(vec![Value::Num(self.ext_calls as f64)])
            }
            B_EXT2 => {
                self.log_call("ext2", &args)?;
                self.ext_calls += 1;
                Ok(vec![Value::Num(self.ext_calls as f64), Value::str(&format!("s{}", self.ext_calls))])
            }
            B_EXT0 => {
                self.log_call("ext0", &args)?;
                self.ext_calls += 1;
                Ok(vec![])
            }
            B_EXTM => {
                self.log_call("extm", &args)?;
                self.ext_calls += 1;
                let k = self.ext_calls % 4;
                Ok((0..k).map(|i| Value::Num((self.ext_calls * 10 + i) as f64)).collect())
            }
            B_EXTB => {
                self.log_call("extb", &args)?;
                self.ext_calls += 1;
                Ok(vec![Value::Bool((self.ext_calls * 7) % 3 != 0)])
            }
            B_EXTS => {
                self.log_call("exts", &args)?;
                self.ext_calls += 1;
                Ok(vec![Value::str(&format!("s{}", self.ext_calls))])
            }
            B_EXTT => {
                self.log_call("extt", &args)?;
                self.ext_calls += 1;
                Ok(vec![self.new_hostile()])
            }
            B_SELECT => {
                match args.first() {
                    Some(Value::Str(s)) if &**s == b"#" => Ok(vec![Value::Num((args.len() - 1) as f64)]),
                    _ => {
                        let n = self.arg_num(&args, 0, "select")?;
                        let count = (args.len() - 1) as f64;
                        if n < 0.0 {
                            let idx = count + n;
                            if idx < 0.0 {
                                return rt_err("bad argument #1 to 'select' (index out of range)");
                            }
                            Ok(args[(1 + idx as usize)..].to_vec())
                        } else if n == 0.0 || n.fract() != 0.0 {
                            if n.fract() != 0.0 {
                                self.mark_uncertain("select with a fractional index");
                            }
                            rt_err("bad argument #1 to 'select' (index out of range)")
                        } else {
                            let i = n as usize;
                            if i > args.len() - 1 {
                                Ok(vec![])
                            } else {
                                Ok(args[i..].to_vec())
                            }
                        }
                    }
                }
            }
            B_TYPE | B_TYPEOF => match args.first() {
                Some(v) => Ok(vec![Value::str(v.type_name())]),
                None => rt_err("bad argument #1 to 'type' (value expected)"),
            },
            B_TOSTRING => {
                let v = args.first().cloned().unwrap_or(Value::Nil);
                if args.is_empty() {
                    return rt_err("bad argument #1 to 'tostring' (value expected)");
                }
                let s = self.tostring(&v)?;
                Ok(vec![Value::bytes(&s)])
            }
            B_TONUMBER => {
                if args.len() >= 2 && !matches!(args[1], Value::Nil) {
                    let base = self.arg_num(&args, 1, "tonumber")?;
                    if base != 10.0 {
                        self.mark_uncertain("tonumber with a base");
                        let s = self.arg_str(&args, 0, "tonumber")?;
                        let txt = String::from_utf8_lossy(&s).trim().to_ascii_lowercase();
                        return Ok(vec![match i64::from_str_radix(&txt, base as u32) {
                            Ok(v) => Value::Num(v as f64),
                            Err(_) => Value::Nil,
                        }]);
                    }
                }
                match args.first() {
                    Some(v @ (Value::Num(_) | Value::Str(_))) => Ok(vec![match self.to_number(v) {
                        Some(n) => Value::Num(n),
                        None => Value::Nil,
                    }]),
                    Some(_) => Ok(vec![Value::Nil]),
                    None => rt_err("bad argument #1 to 'tonumber' (value expected)"),
                }
            }
            B_PAIRS => {
                match args.first() {
                    Some(Value::Table(_)) => {}
                    Some(Value::Proxy(p)) => {
                        self.emit(format!("proxy-pairs {}", p.name))?;
                        let t = self.new_table();
                        return Ok(vec![bi(B_NEXT, "next"), Value::Table(t), Value::Nil]);
                    }
                    _ => return rt_err("bad argument #1 to 'pairs' (table expected)"),
                }
                if self.metamethod(&args[0], "__iter").is_some() || self.metamethod(&args[0], "__pairs").is_some() {
                    self.mark_uncertain("__iter/__pairs");
                }
                Ok(vec![bi(B_NEXT, "next"), args[0].clone(), Value::Nil])
            }
            B_IPAIRS => {
                match args.first() {
                    Some(Value::Table(_)) => {}
                    Some(Value::Proxy(p)) => {
                        self.emit(format!("proxy-ipairs {}", p.name))?;
                        let t = self.new_table();
                        return Ok(vec![bi(B_IPAIRS_ITER, "ipairs_iter"), Value::Table(t), Value::Num(0.0)]);
                    }
                    _ => return rt_err("bad argument #1 to 'ipairs' (table expected)"),
                }
                if self.metamethod(&args[0], "__index").is_some() {
                    self.mark_uncertain("ipairs on a table with __index");
                }
                Ok(vec![bi(B_IPAIRS_ITER, "ipairs_iter"), args[0].clone(), Value::Num(0.0)])
            }
            B_IPAIRS_ITER => {
                let t = self.arg_table(&args, 0, "ipairs")?;
                let i = self.arg_num(&args, 1, "ipairs")? + 1.0;
                let v = t.data.borrow().get(&Value::Num(i));
                if matches!(v, Value::Nil) {
                    Ok(vec![Value::Nil])
                } else {
                    Ok(vec![Value::Num(i), v])
                }
            }
            B_NEXT => {
                let t = self.arg_table(&args, 0, "next")?;
                let k = args.get(1).cloned().unwrap_or(Value::Nil);
                let d = t.data.borrow();
                // order: array part, then hash in key order
                let mut start_arr = 0usize;
                let mut after_key: Option<Key> = None;
                match &k {
                    Value::Nil => {}
                    Value::Num(n) if (*n as usize) as f64 == *n && *n >= 1.0 && (*n as usize) <= d.arr.len() => start_arr = *n as usize,
                    other => {
                        start_arr = usize::MAX;
                        after_key = other.to_key();
                        if after_key.is_none() {
                            return rt_err("invalid key to 'next'");
                        }
                    }
                }
                if start_arr != usize::MAX {
                    for i in start_arr..d.arr.len() {
                        if !matches!(d.arr[i], Value::Nil) {
                            return Ok(vec![Value::Num((i + 1) as f64), d.arr[i].clone()]);
                        }
                    }
                }
                let mut iter: Box<dyn Iterator<Item = (&Key, &Value)>> = match &after_key {
                    Some(key) => Box::new(d.hash.range((std::ops::Bound::Excluded(key.clone()), std::ops::Bound::Unbounded))),
                    None => Box::new(d.hash.iter()),
                };
                if let Some((key, v)) = iter.next() {
                    let kv = match key {
                        Key::Bool(b) => Value::Bool(*b),
                        Key::Num(bits) => Value::Num(key_to_value_num(*bits)),
                        Key::Str(s) => Value::Str(s.clone()),
                        Key::Obj(..) => {
                            drop(iter);
                            drop(d);
                            self.mark_uncertain("iteration over object keys");
                            return Ok(vec![Value::Nil]);
                        }
                    };
                    return Ok(vec![kv, v.clone()]);
                }
                Ok(vec![Value::Nil])
            }
            B_SETMT => {
                let t = self.arg_table(&args, 0, "setmetatable")?;
                if let Some(m) = &t.data.borrow().meta {
                    if !matches!(m.data.borrow().get_str("__metatable"), Value::Nil) {
                        return rt_err("cannot change a protected metatable");
                    }
                }
                match args.get(1) {
                    Some(Value::Table(m)) => t.data.borrow_mut().meta = Some(m.clone()),
                    Some(Value::Nil) => t.data.borrow_mut().meta = None,
                    _ => return rt_err("bad argument #2 to 'setmetatable' (nil or table expected)"),
                }
                Ok(vec![args[0].clone()])
            }
            B_GETMT => match args.first() {
                Some(Value::Table(t)) => {
                    let d = t.data.borrow();
                    match &d.meta {
                        Some(m) => {
                            let prot = m.data.borrow().get_str("__metatable");
                            if !matches!(prot, Value::Nil) {
                                Ok(vec![prot])
                            } else {
                                Ok(vec![Value::Table(m.clone())])
                            }
                        }
                        None => Ok(vec![Value::Nil]),
                    }
                }
                Some(Value::Str(_)) => {
                    self.mark_uncertain("getmetatable of a string");
                    Ok(vec![Value::Nil])
                }
                Some(_) => Ok(vec![Value::Nil]),
                None => rt_err("bad argument #1 to 'getmetatable' (value expected)"),
            },
            B_RAWGET => {
                let t = self.arg_table(&args, 0, "rawget")?;
                let k = args.get(1).cloned().unwrap_or(Value::Nil);
                let v = t.data.borrow().get(&k);
                Ok(vec![v])
            }
            B_RAWSET => {
                let t = self.arg_table(&args, 0, "rawset")?;
                let k = args.get(1).cloned().unwrap_or(Value::Nil);
                let v = args.get(2).cloned().unwrap_or(Value::Nil);
                match &k {
                    Value::Nil => return rt_err("table index is nil"),
                    Value::Num(n) if n.is_nan() => return rt_err("table index is NaN"),
                    _ => {}
                }
                t.data.borrow_mut().set(&k, v);
                Ok(vec![args[0].clone()])
            }
            B_RAWEQUAL => {
                let a = args.first().cloned().unwrap_or(Value::Nil);
                let b2 = args.get(1).cloned().unwrap_or(Value::Nil);
                Ok(vec![Value::Bool(a.raw_equals(&b2))])
            }
            B_RAWLEN => match args.first() {
                Some(Value::Table(t)) => match t.data.borrow().length() {
                    Some(n) => Ok(vec![Value::Num(n as f64)]),
                    None => {
                        drop(t);
                        self.mark_uncertain("length of a table with holes");
                        Ok(vec![Value::Num(0.0)])
                    }
                },
                Some(Value::Str(s)) => Ok(vec![Value::Num(s.len() as f64)]),
                _ => rt_err("table or string expected"),
            },
            B_UNPACK => {
                let t = self.arg_table(&args, 0, "unpack")?;
                let i = if args.len() > 1 && !matches!(args[1], Value::Nil) { self.arg_num(&args, 1, "unpack")? } else { 1.0 };
                let j = if args.len() > 2 && !matches!(args[2], Value::Nil) {
                    self.arg_num(&args, 2, "unpack")?
                } else {
                    match t.data.borrow().length() {
                        Some(n) => n as f64,
                        None => {
                            self.uncertain.get_or_insert("unpack of a table with holes".to_string());
                            t.data.borrow().arr.len() as f64
                        }
                    }
                };
                if j - i > 200.0 {
                    return rt_err("too many results to unpack");
                }
                let mut out = vec![];
                let mut k = i;
                while k <= j {
                    out.push(t.data.borrow().get(&Value::Num(k)));
                    k += 1.0;
                }
                Ok(out)
            }
            B_T_PACK => {
                let t = self.new_table();
                {
                    let mut d = t.data.borrow_mut();
                    for (i, a) in args.iter().enumerate() {
                        d.set(&Value::Num((i + 1) as f64), a.clone());
                    }
                    d.set(&Value::str("n"), Value::Num(args.len() as f64));
                }
                if self.dialect == Dialect::L51 {
                    return rt_err("attempt to call a nil value (table.pack)");
                }
                Ok(vec![Value::Table(t)])
            }
            B_ERROR => {
                let v = args.first().cloned().unwrap_or(Value::Nil);
                let level = if args.len() > 1 { self.to_number(&args[1]).unwrap_or(1.0) } else { 1.0 };
                let positioned = matches!(v, Value::Str(_)) && level != 0.0;
                Err(Ctl::Error { value: v, positioned })
            }
            B_PCALL => {
                if args.is_empty() {
                    return rt_err("bad argument #1 to 'pcall' (value expected)");
                }
                let f = args[0].clone();
                let rest = args[1..].to_vec();
                let depth = self.depth;
                match self.call(&f, rest) {
                    Ok(mut vals) => {
                        let mut out = vec![Value::Bool(true)];
                        out.append(&mut vals);
                        Ok(out)
                    }
                    Err(Ctl::Error { value, positioned }) => {
                        self.depth = depth;
                        if positioned {
                            // the message text of a real implementation carries positions / names:
                            // hand the program an opaque message and remember that it is not comparable
                            self.mark_uncertain("pcall observed a positioned error message");
                        }
                        Ok(vec![Value::Bool(false), value])
                    }
                    Err(e) => Err(e),
                }
            }
            B_ASSERT => {
                match args.first() {
                    None => rt_err("bad argument #1 to 'assert' (value expected)"),
                    Some(v) if v.truthy() => Ok(args),
                    Some(_) => {
                        let msg = args.get(1).cloned().unwrap_or_else(|| Value::str("assertion failed!"));
                        Err(Ctl::Error { value: msg, positioned: false })
                    }
                }
            }
            B_ASSERT_IDENTITY => Ok(args),
            B_NOOP | B_D_PROFBEGIN | B_D_PROFEND => Ok(vec![]),
            B_REQUIRE => {
                let name = match args.first() {
                    Some(Value::Str(s)) => String::from_utf8_lossy(s).to_string(),
                    _ => return rt_err("bad argument #1 to 'require' (string expected)"),
                };
                let hook = match self.require_hook.clone() {
                    Some(h) => h,
                    None => return rt_err("module not found (no require model installed)"),
                };
                let r = hook(self, &name);
                match r {
                    Ok(v) => Ok(vec![v]),
                    Err(m) => Err(Ctl::Error { value: Value::str(&m), positioned: true }),
                }
            }
            B_M_FLOOR => Ok(vec![Value::Num(self.arg_num(&args, 0, "floor")?.floor())]),
            B_M_CEIL => Ok(vec![Value::Num(self.arg_num(&args, 0, "ceil")?.ceil())]),
            B_M_SQRT => {
                let x = self.arg_num(&args, 0, "sqrt")?;
                Ok(vec![Value::Num(if self.sqrt_is_pow { pow(x, std::hint::black_box(0.5)) } else { x.sqrt() })])
            }
            B_M_ABS => Ok(vec![Value::Num(self.arg_num(&args, 0, "abs")?.abs())]),
            B_M_FMOD => {
                let a = self.arg_num(&args, 0, "fmod")?;
                let b2 = self.arg_num(&args, 1, "fmod")?;
                Ok(vec![Value::Num(a % b2)])
            }
            B_M_POW => {
                let a = self.arg_num(&args, 0, "pow")?;
                let b2 = self.arg_num(&args, 1, "pow")?;
                Ok(vec![Value::Num(pow(a, b2))])
            }
            B_M_MAX | B_M_MIN => {
                let mut best = self.arg_num(&args, 0, b.name)?;
                for i in 1..args.len() {
                    let x = self.arg_num(&args, i, b.name)?;
                    if x.is_nan() || best.is_nan() {
                        self.mark_uncertain("max/min with NaN");
                    }
                    if (id == B_M_MAX && x > best) || (id == B_M_MIN && x < best) {
                        best = x;
                    }
                }
                Ok(vec![Value::Num(best)])
            }
            B_S_LEN => Ok(vec![Value::Num(self.arg_str(&args, 0, "len")?.len() as f64)]),
            B_S_UPPER => Ok(vec![Value::bytes(&self.arg_str(&args, 0, "upper")?.to_ascii_uppercase())]),
            B_S_LOWER => Ok(vec![Value::bytes(&self.arg_str(&args, 0, "lower")?.to_ascii_lowercase())]),
            B_S_REVERSE => {
                let mut s = self.arg_str(&args, 0, "reverse")?;
                s.reverse();
                Ok(vec![Value::bytes(&s)])
            }
            B_S_REP => {
                let s = self.arg_str(&args, 0, "rep")?;
                let n = self.arg_num(&args, 1, "rep")?;
                if args.len() > 2 {
                    self.mark_uncertain("string.rep separator");
                }
                let n = if n.is_nan() || n < 0.0 { 0.0 } else { n.floor() };
                if n * s.len() as f64 > 100000.0 {
                    return Err(Ctl::Fuel);
                }
                Ok(vec![Value::bytes(&s.repeat(n as usize))])
            }
            B_S_SUB => {
                let s = self.arg_str(&args, 0, "sub")?;
                let l = s.len() as f64;
                let mut i = if args.len() > 1 { self.arg_num(&args, 1, "sub")? } else { 1.0 };
                let mut j = if args.len() > 2 && !matches!(args[2], Value::Nil) { self.arg_num(&args, 2, "sub")? } else { -1.0 };
                if i.fract() != 0.0 || j.fract() != 0.0 {
                    self.mark_uncertain("string.sub with fractional index");
                }
                if i < 0.0 {
                    i = (l + i + 1.0).max(1.0);
                } else if i == 0.0 {
                    i = 1.0;
                }
                if j < 0.0 {
                    j = l + j + 1.0;
                } else if j > l {
                    j = l;
                }
                if i > j {
                    return Ok(vec![Value::str("")]);
                }
                Ok(vec![Value::bytes(&s[(i as usize - 1)..(j as usize)])])
            }
            B_S_BYTE => {
                let s = self.arg_str(&args, 0, "byte")?;
                let l = s.len() as f64;
                let mut i = if args.len() > 1 && !matches!(args[1], Value::Nil) { self.arg_num(&args, 1, "byte")? } else { 1.0 };
                let mut j = if args.len() > 2 && !matches!(args[2], Value::Nil) { self.arg_num(&args, 2, "byte")? } else { i };
                if i < 0.0 {
                    i = (l + i + 1.0).max(1.0);
                } else if i == 0.0 {
                    i = 1.0;
                }
                if j < 0.0 {
                    j = l + j + 1.0;
                } else if j > l {
                    j = l;
                }
                let mut out = vec![];
                let mut k = i;
                while k <= j {
                    out.push(Value::Num(s[k as usize - 1] as f64));
                    k += 1.0;
                }
                Ok(out)
            }
            B_S_CHAR => {
                let mut out = vec![];
                for i in 0..args.len() {
                    let n = self.arg_num(&args, i, "char")?;
                    if !(0.0..=255.0).contains(&n) || n.fract() != 0.0 {
                        return rt_err("bad argument to 'char' (invalid value)");
                    }
                    out.push(n as u8);
                }
                Ok(vec![Value::bytes(&out)])
            }
            B_S_FORMAT => {
                let f = self.arg_str(&args, 0, "format")?;
                let mut out: Vec<u8> = vec![];
                let mut ai = 1;
                let mut i = 0;
                while i < f.len() {
                    if f[i] != b'%' {
                        out.push(f[i]);
                        i += 1;
                        continue;
                    }
                    i += 1;
                    if i >= f.len() {
                        return rt_err("invalid format string to 'format'");
                    }
                    if f[i] == b'%' {
                        out.push(b'%');
                        i += 1;
                        continue;
                    }
                    // flags / width / precision
                    let spec_start = i;
                    while i < f.len() && b"-+ #0".contains(&f[i]) {
                        i += 1;
                    }
                    while i < f.len() && f[i].is_ascii_digit() {
                        i += 1;
                    }
                    let mut prec: Option<usize> = None;
                    if i < f.len() && f[i] == b'.' {
                        i += 1;
                        let st = i;
                        while i < f.len() && f[i].is_ascii_digit() {
                            i += 1;
                        }
                        prec = Some(std::str::from_utf8(&f[st..i]).unwrap().parse().unwrap_or(0));
                    }
                    if i >= f.len() {
                        return rt_err("invalid format string to 'format'");
                    }
                    let plain = i == spec_start || prec.is_some() && f[spec_start] == b'.';
                    if !plain {
                        self.mark_uncertain("string.format flags/width");
                    }
                    let conv = f[i];
                    i += 1;
                    if ai >= args.len() {
                        return rt_err("bad argument to 'format' (no value)");
                    }
                    let a = args[ai].clone();
                    ai += 1;
                    match conv {
                        b'*' => {
                            let s = self.tostring(&a)?;
                            out.extend_from_slice(&s);
                        }
                        b's' => {
                            let s = self.tostring(&a)?;
                            match prec {
                                Some(p) => out.extend_from_slice(&s[..p.min(s.len())]),
                                None => out.extend_from_slice(&s),
                            }
                        }
                        b'd' | b'i' => {
                            let n = match self.to_number(&a) {
                                Some(n) => n,
                                None => return rt_err("bad argument to 'format' (number expected)"),
                            };
                            if n.fract() != 0.0 || n.abs() > 9.0e15 {
                                self.mark_uncertain("%d with a non-integer");
                            }
                            out.extend_from_slice(format!("{}", n as i64).as_bytes());
                        }
                        b'g' => {
                            let n = match self.to_number(&a) {
                                Some(n) => n,
                                None => return rt_err("bad argument to 'format' (number expected)"),
                            };
                            out.extend_from_slice(numfmt::fmt_g(n, prec.unwrap_or(6)).as_bytes());
                        }
                        b'f' => {
                            let n = match self.to_number(&a) {
                                Some(n) => n,
                                None => return rt_err("bad argument to 'format' (number expected)"),
                            };
                            if !n.is_finite() {
                                self.mark_uncertain("%f of a non-finite number");
                            }
                            out.extend_from_slice(format!("{:.*}", prec.unwrap_or(6), n).as_bytes());
                        }
                        b'x' => {
                            let n = match self.to_number(&a) {
                                Some(n) => n,
                                None => return rt_err("bad argument to 'format' (number expected)"),
                            };
                            if n.fract() != 0.0 || n < 0.0 || n > 9.0e15 {
                                self.mark_uncertain("%x with an odd value");
                            }
                            out.extend_from_slice(format!("{:x}", n as i64).as_bytes());
                        }
                        _ => {
                            self.mark_uncertain("string.format conversion not modelled");
                            out.extend_from_slice(b"?");
                        }
                    }
                }
                self.charge_str(out.len())?;
                Ok(vec![Value::bytes(&out)])
            }
            B_T_INSERT => {
                let t = self.arg_table(&args, 0, "insert")?;
                let n = match t.data.borrow().length() {
                    Some(n) => n,
                    None => {
                        self.uncertain.get_or_insert("table.insert on a table with holes".to_string());
                        t.data.borrow().arr.len()
                    }
                };
                if args.len() == 2 {
                    t.data.borrow_mut().set(&Value::Num((n + 1) as f64), args[1].clone());
                } else if args.len() == 3 {
                    let pos = self.arg_num(&args, 1, "insert")?;
                    if pos.fract() != 0.0 || pos < 1.0 || pos > (n + 1) as f64 {
                        self.mark_uncertain("table.insert position out of bounds");
                        return rt_err("bad argument #2 to 'insert' (position out of bounds)");
                    }
                    let pos = pos as usize;
                    let mut d = t.data.borrow_mut();
                    let mut i = n;
                    while i >= pos {
                        let v = d.get(&Value::Num(i as f64));
                        d.set(&Value::Num((i + 1) as f64), v);
                        if i == 0 {
                            break;
                        }
                        i -= 1;
                    }
                    d.set(&Value::Num(pos as f64), args[2].clone());
                } else {
                    return rt_err("wrong number of arguments to 'insert'");
                }
                Ok(vec![])
            }
            B_T_REMOVE => {
                let t = self.arg_table(&args, 0, "remove")?;
                let n = match t.data.borrow().length() {
                    Some(n) => n,
                    None => {
                        self.uncertain.get_or_insert("table.remove on a table with holes".to_string());
                        t.data.borrow().arr.len()
                    }
                };
                if n == 0 && args.len() < 2 {
                    return Ok(vec![Value::Nil]);
                }
                let pos = if args.len() > 1 { self.arg_num(&args, 1, "remove")? } else { n as f64 };
                if pos.fract() != 0.0 || pos < 1.0 || pos > n as f64 {
                    self.mark_uncertain("table.remove position out of bounds");
                    return Ok(vec![Value::Nil]);
                }
                let pos = pos as usize;
                let mut d = t.data.borrow_mut();
                let v = d.get(&Value::Num(pos as f64));
                for i in pos..n {
                    let nx = d.get(&Value::Num((i + 1) as f64));
                    d.set(&Value::Num(i as f64), nx);
                }
                d.set(&Value::Num(n as f64), Value::Nil);
                Ok(vec![v])
            }
            B_T_CONCAT => {
                let t = self.arg_table(&args, 0, "concat")?;
                let sep = if args.len() > 1 && !matches!(args[1], Value::Nil) { self.arg_str(&args, 1, "concat")? } else { vec![] };
                let i = if args.len() > 2 && !matches!(args[2], Value::Nil) { self.arg_num(&args, 2, "concat")? } else { 1.0 };
                let j = if args.len() > 3 && !matches!(args[3], Value::Nil) {
                    self.arg_num(&args, 3, "concat")?
                } else {
                    match t.data.borrow().length() {
                        Some(n) => n as f64,
                        None => {
                            self.uncertain.get_or_insert("table.concat on a table with holes".to_string());
                            t.data.borrow().arr.len() as f64
                        }
                    }
                };
                let mut out = vec![];
                let mut k = i;
                while k <= j {
                    let v = t.data.borrow().get(&Value::Num(k));
                    match &v {
                        Value::Str(_) | Value::Num(_) => out.extend_from_slice(&self.tostring_basic(&v)),
                        _ => return rt_err("invalid value in table for 'concat'"),
                    }
                    if k < j {
                        out.extend_from_slice(&sep);
                    }
                    k += 1.0;
                    self.charge_str(out.len())?;
                }
                Ok(vec![Value::bytes(&out)])
            }
            _ => rt_err("unknown builtin"),
        }
    }

    // ------------------------------------------------------------------ serialisation (A7)

    pub fn serialize(&self, v: &Value) -> String {
        let mut out = String::new();
        let mut seen: Vec<u32> = vec![];
        self.ser(v, &mut out, &mut seen, 0);
        out
    }

    fn ser(&self, v: &Value, out: &mut String, seen: &mut Vec<u32>, depth: u32) {
        match v {
            Value::Nil => out.push_str("nil"),
            Value::Bool(b) => out.push_str(if *b { "true" } else { "false" }),
            Value::Num(n) => {
                if n.is_nan() {
                    out.push_str("nan");
                } else {
                    // exact: shortest round trip plus the sign of zero
                    out.push_str(&format!("{:?}", n));
                }
            }
            Value::Str(s) => {
                out.push('"');
                for &c in s.iter() {
                    match c {
                        b'"' => out.push_str("\\\""),
                        b'\\' => out.push_str("\\\\"),
                        0x20..=0x7e => out.push(c as char),
                        _ => out.push_str(&format!("\\x{:02x}", c)),
                    }
                }
                out.push('"');
            }
            Value::Func(_) => out.push_str("<function>"),
            Value::Builtin(b) => out.push_str(&format!("<builtin:{}>", b.name)),
            Value::Proxy(p) => out.push_str(&format!("<proxy:{}>", p.name)),
            Value::Table(t) => {
                if t.hostile != 0 {
                    out.push_str(&format!("<hostile#{}>", t.hostile));
                    return;
                }
                if let Some(pos) = seen.iter().position(|x| *x == t.id) {
                    out.push_str(&format!("<cycle^{}>", seen.len() - pos));
                    return;
                }
                if depth > 12 {
                    out.push_str("<deep>");
                    return;
                }
                seen.push(t.id);
                let d = t.data.borrow();
                out.push('{');
                let mut first = true;
                for (i, x) in d.arr.iter().enumerate() {
                    if !first {
                        out.push(',');
                    }
                    first = false;
                    if matches!(x, Value::Nil) {
                        out.push_str(&format!("[{}]=nil", i + 1));
                    } else {
                        self.ser(x, out, seen, depth + 1);
                    }
                }
                for (k, x) in d.hash.iter() {
                    if !first {
                        out.push(',');
                    }
                    first = false;
                    match k {
                        Key::Bool(b) => out.push_str(&format!("[{}]=", b)),
                        Key::Num(bits) => out.push_str(&format!("[{:?}]=", key_to_value_num(*bits))),
                        Key::Str(s) => {
                            self.ser(&Value::Str(s.clone()), out, seen, depth + 1);
                            out.push('=');
                        }
                        Key::Obj(kind, _) => out.push_str(&format!("[<obj{}>]=", kind)),
                    }
                    self.ser(x, out, seen, depth + 1);
                }
                if d.meta.is_some() {
                    out.push_str(";mt");
                }
                out.push('}');
                seen.pop();
            }
        }
    }
}

/// C pow()
pub fn pow(a: f64, b: f64) -> f64 {
    a.powf(b)
}
