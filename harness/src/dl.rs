//! Thin helpers around darklua's public API.  Every call into darklua made by a monitor goes
//! through here, so "what was observed" is always the library's public boundary.

use darklua_core::{
    generator::{DenseLuaGenerator, LuaGenerator, ReadableLuaGenerator, TokenBasedLuaGenerator},
    nodes::Block,
    Configuration, Options, Parser, Resources,
};
use std::collections::BTreeMap;

pub fn parse(code: &str) -> Result<Block, String> {
    Parser::default().parse(code).map_err(|e| e.to_string())
}
pub fn parse_tokens(code: &str) -> Result<Block, String> {
    Parser::default().preserve_tokens().parse(code).map_err(|e| e.to_string())
}

pub fn gen_dense(block: &Block, span: usize) -> String {
    let mut g = DenseLuaGenerator::new(span);
    g.write_block(block);
    g.into_string()
}
pub fn gen_readable(block: &Block, span: usize) -> String {
    let mut g = ReadableLuaGenerator::new(span);
    g.write_block(block);
    g.into_string()
}
pub fn gen_token_based(block: &Block, original: &str) -> String {
    let mut g = TokenBasedLuaGenerator::new(original);
    g.write_block(block);
    g.into_string()
}

pub fn config_from_json(text: &str) -> Result<Configuration, String> {
    json5::from_str::<Configuration>(text).map_err(|e| e.to_string())
}

/// Result of an in-memory run
pub struct RunOut {
    pub ok: bool,
    pub errors: Vec<String>,
    /// every file present in the resources afterwards
    pub files: BTreeMap<String, String>,
}

/// Process `input` (file or directory) inside an in-memory resource tree.  All paths should live
/// under the directory `root` (so that the final state can be enumerated).
pub fn process_memory(files: &[(String, String)], config_json: &str, input: &str, output: Option<&str>, root: &str) -> RunOut {
    let resources = Resources::from_memory();
    for (p, c) in files {
        resources.write(p, c).expect("memory write");
    }
    let cfg = match config_from_json(config_json) {
        Ok(c) => c,
        Err(e) => return RunOut { ok: false, errors: vec![format!("config: {}", e)], files: BTreeMap::new() },
    };
    let mut options = Options::new(input).with_configuration(cfg);
    if let Some(o) = output {
        options = options.with_output(o);
    }
    let res = darklua_core::process(&resources, options);
    let (ok, errors) = match res {
        Ok(tree) => match tree.result() {
            Ok(()) => (true, vec![]),
            Err(errs) => (false, errs.iter().map(|e| e.to_string()).collect()),
        },
        Err(e) => (false, vec![e.to_string()]),
    };
    let mut out = BTreeMap::new();
    for p in resources.walk(root) {
        if let Ok(c) = resources.get(&p) {
            out.insert(p.to_string_lossy().to_string(), c);
        }
    }
    RunOut { ok, errors, files: out }
}

/// Process a single source text with a configuration; returns the output text.
pub fn process_one(code: &str, config_json: &str) -> Result<String, String> {
    process_one_named(code, config_json, "src/main.lua")
}

pub fn process_one_named(code: &str, config_json: &str, name: &str) -> Result<String, String> {
    let r = process_memory(&[(name.to_string(), code.to_string())], config_json, name, None, "src");
    if r.ok {
        r.files.get(name).cloned().ok_or_else(|| "output missing".to_string())
    } else {
        Err(r.errors.join("\n"))
    }
}

pub const DEFAULT_RULES: [&str; 13] = [
    "remove_spaces",
    "remove_comments",
    "compute_expression",
    "remove_unused_if_branch",
    "remove_unused_while",
    "filter_after_early_return",
    "remove_empty_do",
    "remove_unused_variable",
    "remove_method_definition",
    "convert_index_to_field",
    "remove_nil_declaration",
    "rename_variables",
    "remove_function_call_parens",
];

pub const GENERATORS: [&str; 3] = ["retain_lines", "dense", "readable"];

pub fn generator_json(name: &str, span: Option<usize>) -> String {
    match span {
        Some(s) if name != "retain_lines" => format!("{{ name: '{}', column_span: {} }}", name, s),
        _ => format!("'{}'", name),
    }
}

pub fn config_json(rules: &[String], generator: &str) -> String {
    format!("{{ generator: {}, rules: [{}] }}", generator, rules.join(", "))
}
