//! Deterministic PRNG (SplitMix64 seeding + xoshiro256**). No external crate so streams are
//! identical everywhere.

#[derive(Clone, Debug)]
pub struct Rng {
    s: [u64; 4],
}

pub fn splitmix(x: &mut u64) -> u64 {
    *x = x.wrapping_add(0x9E3779B97F4A7C15);
    let mut z = *x;
    z = (z ^ (z >> 30)).wrapping_mul(0xBF58476D1CE4E5B9);
    z = (z ^ (z >> 27)).wrapping_mul(0x94D049BB133111EB);
    z ^ (z >> 31)
}

pub fn hash64(bytes: &[u8]) -> u64 {
    // FNV-1a 64 followed by a splitmix finaliser
    let mut h: u64 = 0xcbf29ce484222325;
    for b in bytes {
        h ^= *b as u64;
        h = h.wrapping_mul(0x100000001b3);
    }
    let mut x = h;
    splitmix(&mut x)
}

impl Rng {
    pub fn new(seed: u64) -> Self {
        let mut x = seed;
        let s = [splitmix(&mut x), splitmix(&mut x), splitmix(&mut x), splitmix(&mut x)];
        Rng { s }
    }
    /// derive an independent stream from (seed, label, index)
    pub fn derive(seed: u64, label: &str, index: u64) -> Self {
        let mut x = seed ^ hash64(label.as_bytes()).rotate_left(17) ^ index.wrapping_mul(0xD6E8FEB86659FD93);
        let a = splitmix(&mut x);
        Rng::new(a ^ index)
    }
    pub fn next_u64(&mut self) -> u64 {
        let r = self.s[1].wrapping_mul(5).rotate_left(7).wrapping_mul(9);
        let t = self.s[1] << 17;
        self.s[2] ^= self.s[0];
        self.s[3] ^= self.s[1];
        self.s[1] ^= self.s[2];
        self.s[0] ^= self.s[3];
        self.s[2] ^= t;
        self.s[3] = self.s[3].rotate_left(45);
        r
    }
    /// uniform in 0..n (n>0)
    pub fn below(&mut self, n: usize) -> usize {
        if n <= 1 {
            return 0;
        }
        (self.next_u64() % (n as u64)) as usize
    }
    pub fn range(&mut self, lo: i64, hi: i64) -> i64 {
        // inclusive
        if hi <= lo {
            return lo;
        }
        lo + (self.next_u64() % ((hi - lo + 1) as u64)) as i64
    }
    pub fn chance(&mut self, num: u32, den: u32) -> bool {
        (self.next_u64() % den as u64) < num as u64
    }
    pub fn bool(&mut self) -> bool {
        self.next_u64() & 1 == 1
    }
    pub fn pick<'a, T>(&mut self, xs: &'a [T]) -> &'a T {
        &xs[self.below(xs.len())]
    }
    pub fn f64(&mut self) -> f64 {
        (self.next_u64() >> 11) as f64 / (1u64 << 53) as f64
    }
    /// weighted choice: returns index
    pub fn weighted(&mut self, weights: &[u32]) -> usize {
        let total: u64 = weights.iter().map(|w| *w as u64).sum();
        if total == 0 {
            return 0;
        }
        let mut r = self.next_u64() % total;
        for (i, w) in weights.iter().enumerate() {
            if r < *w as u64 {
                return i;
            }
            r -= *w as u64;
        }
        weights.len() - 1
    }
    pub fn shuffle<T>(&mut self, xs: &mut [T]) {
        for i in (1..xs.len()).rev() {
            let j = self.below(i + 1);
            xs.swap(i, j);
        }
    }
}
