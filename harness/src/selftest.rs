//! Conformance self-test of the reference tooling (DESIGN.md §7.1).  Every expectation below is
//! taken from the Lua 5.1 reference manual / the Luau documentation, not from darklua.

use crate::reflua::literal::{decode_number, decode_string, str_to_number, Dialect};
use crate::reflua::{numfmt, parser, run_source};

/// (dialects, source, expected "ret1|ret2|..." or "ERR" or "LOG:line;line|rets")
const CASES: &[(&str, &str, &str)] = &[
    // arithmetic and precedence
    ("B", "return 1+2*3", "7.0"),
    ("B", "return (1+2)*3", "9.0"),
    ("B", "return 2^3^2", "512.0"),
    ("B", "return -2^2", "-4.0"),
    ("B", "return (-2)^2", "4.0"),
    ("B", "return 2^-1", "0.5"),
    ("B", "return not nil == true", "true"),
    ("B", "return not (1 == 2)", "true"),
    ("B", "return 1 .. 2", "\"12\""),
    ("B", "return 'a' .. 'b' .. 'c'", "\"abc\""),
    ("B", "return 1 < 2 == true", "true"),
    ("B", "return 1 + 2 < 4", "true"),
    ("B", "return 'a' < 'b', 'a' < 'B', '' < 'a', 'ab' < 'abc'", "true|false|true|true"),
    ("B", "return 1 or error('x')", "1.0"),
    ("B", "return nil and error('x')", "nil"),
    ("B", "return false or nil", "nil"),
    ("B", "return nil or false", "false"),
    ("B", "return 1 and 2", "2.0"),
    ("B", "return 1 and nil or 3", "3.0"),
    ("B", "return 7 % 3, -7 % 3, 7 % -3, -7 % -3", "1.0|2.0|-2.0|-1.0"),
    ("B", "return 5.5 % 2", "1.5"),
    ("B", "return 1/0, -1/0", "inf|-inf"),
    ("B", "return 0/0 ~= 0/0", "true"),
    ("B", "return 1/0 == 1/0", "true"),
    ("B", "return -0 == 0", "true"),
    ("B", "return 1/(-0)", "-inf"),
    ("B", "return '10' + 1, '3' * '4', 10 .. ''", "11.0|12.0|\"10\""),
    ("B", "return '0x10' + 0", "16.0"),
    ("B", "return ' 5 ' + 0", "5.0"),
    ("B", "return '1e2' + 0", "100.0"),
    ("B", "return -'2'", "-2.0"),
    ("B", "return #'abc', #''", "3.0|0.0"),
    ("B", "return #{1,2,3}, #{}", "3.0|0.0"),
    ("B", "return 10 == '10'", "false"),
    ("U", "return 7 // 2, -7 // 2, 7 // -2, 7.5 // 2", "3.0|-4.0|-4.0|3.0"),
    ("U", "return 1 // 0, -1 // 0", "inf|-inf"),
    // comparison errors
    ("B", "return 1 < 'a'", "ERR"),
    ("B", "return {} < {}", "ERR"),
    ("B", "return nil + 1", "ERR"),
    ("B", "return 'a' + 1", "ERR"),
    ("B", "return {} .. 'a'", "ERR"),
    ("B", "local t = nil; return t.x", "ERR"),
    // multiple values, truncation
    ("B", "local function f() return 1,2,3 end return f()", "1.0|2.0|3.0"),
    ("B", "local function f() return 1,2,3 end return (f())", "1.0"),
    ("B", "local function f() return 1,2,3 end return f(), 10", "1.0|10.0"),
    ("B", "local function f() return 1,2,3 end return 10, f()", "10.0|1.0|2.0|3.0"),
    ("B", "local function f() return 1,2,3 end local t = {f(), f()} return #t", "4.0"),
    ("B", "local function f() return 1,2,3 end local t = {f(), (f())} return #t", "2.0"),
    ("B", "local function f() end return f()", ""),
    ("B", "local function f() end return (f())", "nil"),
    ("B", "local function f() end local a = f() return a", "nil"),
    ("B", "local function f(...) return select('#', ...) end return f(), f(nil), f(nil, nil), f(f())", "0.0|1.0|2.0|1.0"),
    ("B", "local function f(...) return ... end return f(1,2), f(3,4)", "1.0|3.0|4.0"),
    ("B", "local function f(...) local a, b = ... return a, b end return f(1)", "1.0|nil"),
    ("B", "local function f(...) return select(2, ...) end return f(1,2,3)", "2.0|3.0"),
    ("B", "local function f(...) return select(-1, ...) end return f(1,2,3)", "3.0"),
    ("B", "local a, b, c = 1 return a, b, c", "1.0|nil|nil"),
    ("B", "local a, b = 1, 2, 3 return a, b", "1.0|2.0"),
    ("B", "local a, b = (function() return 1, 2 end)() return a, b", "1.0|2.0"),
    ("B", "local t = {(function() return 1, 2 end)(), 3} return #t, t[1], t[2]", "2.0|1.0|3.0"),
    ("B", "return true and (function() return 1, 2 end)()", "1.0"),
    ("B", "return (function(...) return select('#', ...) end)(true and (function() return 1, 2 end)())", "1.0"),
    // assignment
    ("B", "local a, b = 1, 2 a, b = b, a return a, b", "2.0|1.0"),
    ("B", "local i = 1 local t = {} i, t[i] = i + 1, 20 return i, t[1], t[2]", "2.0|20.0|nil"),
    ("B", "x = 5 return x, _G.x, _G['x']", "5.0|5.0|5.0"),
    ("B", "local x = 1 do local x = 2 end return x", "1.0"),
    ("B", "local x = 1 local x = x + 1 return x", "2.0"),
    ("B", "local x = 1 local function f() return x end x = 2 return f()", "2.0"),
    // closures
    ("B", "local fs = {} for i = 1, 3 do fs[i] = function() return i end end return fs[1](), fs[2](), fs[3]()", "1.0|2.0|3.0"),
    ("B", "local fs = {} local j = 0 while j < 3 do j = j + 1 local k = j fs[j] = function() k = k + 1 return k end end return fs[1](), fs[1](), fs[2]()", "2.0|3.0|3.0"),
    ("B", "local function counter() local c = 0 return function() c = c + 1 return c end end local a, b = counter(), counter() return a(), a(), b()", "1.0|2.0|1.0"),
    ("B", "local function f(n) if n == 0 then return 0 end return n + f(n - 1) end return f(4)", "10.0"),
    ("B", "local f = function(n) return f end return f()", "nil"),
    ("B", "local function f() return f end return f() == f", "true"),
    ("B", "local i = 0 repeat local j = i i = i + 1 until j >= 2 return i", "3.0"),
    ("B", "local n = 0 for i = 3, 1, -1 do n = n * 10 + i end return n", "321.0"),
    ("B", "local n = 0 for i = 1, 0 do n = n + 1 end return n", "0.0"),
    ("B", "local n = 0 for i = 1, 3 do i = i * 2 n = n + i end return n", "12.0"),
    ("B", "local n = 0 for i = 1, 10 do if i > 3 then break end n = n + i end return n", "6.0"),
    ("B", "local n = 0 for _, v in ipairs({5, 6, nil, 8}) do n = n + v end return n", "11.0"),
    ("B", "local n = 0 for k, v in pairs({a = 1, b = 2}) do n = n + v end return n", "3.0"),
    ("B", "local n = 0 for k, v in next, {10, 20} do n = n + k * v end return n", "50.0"),
    ("U", "local n = 0 for i = 1, 5 do if i % 2 == 0 then continue end n = n + i end return n", "9.0"),
    ("U", "local i, n = 0, 0 repeat i = i + 1 if i == 2 then continue end n = n + i until i >= 3 return n", "4.0"),
    ("U", "local i = 0 while i < 5 do i += 1 if i < 5 then continue end break end return i", "5.0"),
    ("U", "local t = {x = 1} t.x += 2 t.x *= 3 return t.x", "9.0"),
    ("U", "local s = 'a' s ..= 'b' return s", "\"ab\""),
    ("U", "return if true then 1 else 2, if false then 1 elseif nil then 2 else 3", "1.0|3.0"),
    ("U", "return if false then 1 else false", "false"),
    ("U", "local x = 5 return `a{x}b{x + 1}`, `{true}{nil}`, `plain`", "\"a5b6\"|\"truenil\"|\"plain\""),
    ("U", "return `\\{x}`", "\"{x}\""),
    ("U", "local x: number = 1 local function f<T>(a: T, ...: any): (T, number) return a, 2 end type X = {a: number} return f(x :: any)", "1.0|2.0"),
    // methods and metatables
    ("B", "local t = {v = 3} function t:get(n) return self.v + n end return t:get(1), t.get(t, 2), t.get({v = 10}, 0)", "4.0|5.0|10.0"),
    ("B", "local t = {a = {b = {}}} function t.a.b.f(x) return x end function t.a.b:g() return self == t.a.b end return t.a.b.f(7), t.a.b:g()", "7.0|true"),
    ("B", "local mt = {__index = function(t, k) return k .. '!' end} local t = setmetatable({}, mt) return t.x, rawget(t, 'x')", "\"x!\"|nil"),
    ("B", "local base = {x = 1} local t = setmetatable({}, {__index = base}) return t.x, t.y", "1.0|nil"),
    ("B", "local log = {} local t = setmetatable({}, {__newindex = function(t, k, v) rawset(t, k, v * 2) end}) t.a = 1 t.a = 5 return t.a", "5.0"),
    ("B", "local t = setmetatable({}, {__call = function(self, a, b) return a + b end}) return t(1, 2)", "3.0"),
    ("B", "local mt = {__add = function(a, b) return 'add' end, __concat = function(a, b) return 'cat' end, __unm = function(a) return 'unm' end} local t = setmetatable({}, mt) return t + 1, 1 + t, t .. 'x', 'x' .. t, -t", "\"add\"|\"add\"|\"cat\"|\"cat\"|\"unm\""),
    ("B", "local mt = {__eq = function(a, b) return true end} local a, b = setmetatable({}, mt), setmetatable({}, mt) return a == b, a ~= b, a == 1", "true|false|false"),
    ("B", "local mt = {__lt = function(a, b) return true end, __le = function(a, b) return false end} local a, b = setmetatable({}, mt), setmetatable({}, mt) return a < b, a <= b, a > b, a >= b", "true|false|true|false"),
    ("B", "local t = setmetatable({}, {__tostring = function() return 'T' end}) return tostring(t)", "\"T\""),
    ("U", "local t = setmetatable({}, {__len = function() return 42 end}) return #t", "42.0"),
    ("L", "local t = setmetatable({1,2}, {__len = function() return 42 end}) return #t", "2.0"),
    ("B", "return getmetatable(setmetatable({}, {__metatable = 'locked'}))", "\"locked\""),
    ("B", "return ('x'):rep(3), ('abc'):upper(), ('abc'):sub(2), ('abc'):len(), ('abc'):byte(1)", "\"xxx\"|\"ABC\"|\"bc\"|3.0|97.0"),
    ("B", "local s = 'hello' return s:sub(2, -2), s:sub(-3), s:sub(0), s:sub(10)", "\"ell\"|\"llo\"|\"hello\"|\"\""),
    // evaluation order, observed through the event log
    ("B", "local t = {} t[ext('k')] = ext('v') return 1", "LOG:ext(\"k\");ext(\"v\")|1.0"),
    ("B", "sink(ext('a') + ext('b'), ext('c'))", "LOG:ext(\"a\");ext(\"b\");ext(\"c\");sink(3.0,3.0)|"),
    ("B", "local a = ext(1) and ext(2) or ext(3) return a", "LOG:ext(1.0);ext(2.0)|2.0"),
    ("B", "local a = false and ext(2) return a", "false"),
    ("U", "local t = extt() t[ext('k')] += ext('v')", "LOG:extt();ext(\"k\");mm:__index(<hostile#1>,2.0);ext(\"v\");mm:__newindex(<hostile#1>,2.0,7.0)|"),
    ("B", "print(1, 'a', nil, true, {1, x = 2})", "LOG:print(1.0,\"a\",nil,true,{1.0,\"x\"=2.0})|"),
    ("B", "local r = {ext2()} return #r, r[2]", "LOG:ext2()|2.0|\"s1\""),
    // stdlib
    ("B", "return select('#'), select('#', nil)", "0.0|1.0"),
    ("B", "return type(nil), type(1), type('a'), type({}), type(print), type(function() end)", "\"nil\"|\"number\"|\"string\"|\"table\"|\"function\"|\"function\""),
    ("B", "return tostring(nil), tostring(true), tostring(12), tostring('x')", "\"nil\"|\"true\"|\"12\"|\"x\""),
    ("B", "return tonumber('0x1F'), tonumber('  12  '), tonumber('1e1'), tonumber('abc'), tonumber(''), tonumber('1 2'), tonumber(nil)", "31.0|12.0|10.0|nil|nil|nil|nil"),
    ("B", "return pcall(function() error({code = 1}) end)", "false|{\"code\"=1.0}"),
    ("B", "return pcall(function() error('msg', 0) end)", "false|\"msg\""),
    ("B", "return pcall(function() return 1, 2 end)", "true|1.0|2.0"),
    ("B", "return assert(1, 'm', 3)", "1.0|\"m\"|3.0"),
    ("B", "return pcall(assert, false, 'boom')", "false|\"boom\""),
    ("B", "return pcall(assert, nil)", "false|\"assertion failed!\""),
    ("B", "return unpack({1, 2, 3})", "1.0|2.0|3.0"),
    ("B", "return unpack({1, 2, 3}, 2)", "2.0|3.0"),
    ("B", "return math.floor(-1.5), math.floor(1.5), math.max(1, 5, 3), math.min(2, -1), math.abs(-3), math.sqrt(16), math.huge", "-2.0|1.0|5.0|-1.0|3.0|4.0|inf"),
    ("B", "local t = {} table.insert(t, 'a') table.insert(t, 1, 'b') return table.concat(t, ','), #t", "\"b,a\"|2.0"),
    ("B", "return string.format('%s-%d-%g', 'a', 5, 1.5), string.format('%.2f', 3.14159) ", "\"a-5-1.5\"|\"3.14\""),
    ("B", "return rawequal('a', 'a'), rawequal({}, {}), rawlen({1, 2}), rawlen('abc')", "true|false|2.0|3.0"),
    ("B", "return next({}), next({10})", "nil|1.0|10.0"),
    // number formatting
    ("B", "return 1e13 .. '', 0.1 .. '', -0.5 .. '', 100 .. '', 1e100 .. '', 2^31 .. ''", "\"10000000000000\"|\"0.1\"|\"-0.5\"|\"100\"|\"1e+100\"|\"2147483648\""),
    ("L", "return 2^53 .. '', 1e15 .. ''", "\"9.007199254741e+15\"|\"1e+15\""),
    ("U", "return 2^53 .. ''", "\"9007199254740992\""),
    ("L", "return 1/3 .. '', 123456789012345678 .. '', 1e14 .. '', 3.14159265358979 .. ''", "\"0.33333333333333\"|\"1.2345678901235e+17\"|\"1e+14\"|\"3.1415926535898\""),
    // scoping of repeat-until and local function
    ("B", "local x = 1 repeat local x = 2 until x == 2 return x", "1.0"),
    ("B", "local function f() return 1 end local function f() return 2 end return f()", "2.0"),
    ("B", "do local a = 1 function g() return a end end return g()", "1.0"),
    ("B", "local t = {1, 2, 3, [10] = 10, x = 'x', [2.5] = 1} return #t", "3.0"),
    ("B", "local t = {[1] = 'a', [2] = 'b'} return #t", "2.0"),
    ("B", "local t = {} t[1] = 1 t[2] = 2 t[2] = nil return #t", "1.0"),
    ("B", "local t = {n = 0} function t.inc() t.n = t.n + 1 return t end return t.inc().inc().n", "2.0"),
    ("B", "return #'\\0a\\0', '\\65\\066\\x41' == 'ABA' or '\\65\\066' == 'AB'", "3.0|true"),
    ("B", "return ({10, 20})[2], ('x'):rep(2), (function() return 3 end)()", "20.0|\"xx\"|3.0"),
    ("B", "goto_ = 1 return goto_", "1.0"),
    ("B", "local s = 0 for i = 1, 3 do for j = 1, 3 do if j == 2 then break end s = s + 1 end end return s", "3.0"),
    ("B", "return (2^53 + 1) == 2^53, 0.1 + 0.2 == 0.3, 1e308 * 10 == math.huge", "true|false|true"),
    ("B", "local a <const> = 1", "PARSE_ERR"),
];

/// Luau tostring vectors (shortest round trip)
const LUAU_NUM: &[(f64, &str)] = &[(1.0, "1"), (0.1, "0.1"), (-0.5, "-0.5"), (1e100, "1e+100"), (123456789.0, "123456789"), (1.5e-7, "1.5e-07"), (0.001, "0.001"), (1e21, "1e+21"), (9007199254740992.0, "9007199254740992"), (3.14159265358979, "3.14159265358979"), (1.0 / 3.0, "0.3333333333333333")];

pub fn run() -> i32 {
    let mut fails = 0;
    let mut n = 0;
    for (dialects, src, expect) in CASES {
        for (d, tag) in [(Dialect::L51, "L"), (Dialect::Luau, "U")] {
            if !(dialects.contains(tag) || *dialects == "B") {
                continue;
            }
            n += 1;
            let got = match run_source(src, d, 200_000, false) {
                Err(_) => "PARSE_ERR".to_string(),
                Ok(o) => {
                    use crate::reflua::interp::Status;
                    let rets = match &o.status {
                        Status::Done(v) => v.join("|"),
                        Status::Error(_) => "ERR".to_string(),
                        Status::Fuel => "FUEL".to_string(),
                        Status::Depth => "DEPTH".to_string(),
                    };
                    if expect.starts_with("LOG:") {
                        format!("LOG:{}|{}", o.log.join(";"), rets)
                    } else {
                        rets
                    }
                }
            };
            let expect_d = expect.to_string();
            if got != expect_d {
                fails += 1;
                println!("SELFTEST FAIL [{}] {}\n   expected {}\n   got      {}", tag, src, expect_d, got);
            }
        }
    }
    for (v, s) in LUAU_NUM {
        n += 1;
        let (got, _) = numfmt::fmt_luau(*v);
        if got != *s {
            fails += 1;
            println!("SELFTEST FAIL fmt_luau({:?}) = {} expected {}", v, got, s);
        }
    }
    // literal decoding vectors
    let strs: &[(&str, &[u8])] = &[
        ("'a\\nb'", b"a\nb"),
        ("\"\\65\\066\\0\"", b"AB\0"),
        ("'\\x41\\u{48}\\u{20AC}'", b"AH\xe2\x82\xac"),
        ("'a\\z  \n  b'", b"ab"),
        ("'a\\\nb'", b"a\nb"),
        ("[[\nab]]", b"ab"),
        ("[==[a]]b]==]", b"a]]b"),
        ("[[a\r\nb]]", b"a\nb"),
        ("'\\q\\\\'", b"q\\"),
        ("'\\1234'", b"{4"),
    ];
    for (lit, want) in strs {
        n += 1;
        match decode_string(lit, Dialect::Luau) {
            Ok(v) if v == *want => {}
            other => {
                fails += 1;
                println!("SELFTEST FAIL decode_string({:?}) = {:?}, expected {:?}", lit, other, want);
            }
        }
    }
    let nums: &[(&str, f64)] = &[("1", 1.0), ("0x10", 16.0), ("0xFFFFFFFFFFFFFFFF", 18446744073709551615.0), ("0b101", 5.0), ("1_000", 1000.0), ("1e3", 1000.0), (".5", 0.5), ("5.", 5.0), ("1E+2", 100.0), ("0.1", 0.1), ("1e-320", 1e-320), ("1e400", f64::INFINITY), ("0x_1", 1.0)];
    for (lit, want) in nums {
        n += 1;
        match decode_number(lit, Dialect::Luau) {
            Ok(v) if v.to_bits() == want.to_bits() => {}
            other => {
                fails += 1;
                println!("SELFTEST FAIL decode_number({:?}) = {:?}, expected {:?}", lit, other, want);
            }
        }
    }
    for (s, want) in [("10", Some(10.0)), (" 0x10 ", Some(16.0)), ("1e2", Some(100.0)), ("", None), ("abc", None), ("1 2", None), ("-3", Some(-3.0)), ("5.", Some(5.0)), (".5", Some(0.5)), ("1e", None)] {
        n += 1;
        match str_to_number(s.as_bytes()) {
            Ok(v) if v == want => {}
            other => {
                fails += 1;
                println!("SELFTEST FAIL str_to_number({:?}) = {:?}, expected {:?}", s, other, want);
            }
        }
    }
    // strict 5.1 acceptor
    for (src, ok) in [
        ("local x = 1 return x", true),
        ("x += 1", false),
        ("local x: number = 1", false),
        ("for i = 1, 2 do continue end", false),
        ("return if a then 1 else 2", false),
        ("return `a`", false),
        ("return 1 // 2", false),
        ("return 0b1", false),
        ("return 1_0", false),
        ("return '\\x41'", false),
        ("f()\n(g)()", false),
        ("f();(g)()", true),
        ("local t = {1; 2, a = 3}", true),
        ("return f'x', f{1}, f[[x]]", true),
        ("break", false),
        ("while true do break end", true),
        ("type X = number", false),
        ("return function(...) return ... end", true),
        ("function f() return ... end", false),
    ] {
        n += 1;
        let got = parser::parse_block(src, parser::Mode::Strict51).is_ok();
        if got != ok {
            fails += 1;
            println!("SELFTEST FAIL strict51({:?}) accepted={} expected {}", src, got, ok);
        }
    }
    println!("selftest: {} assertions, {} failures", n, fails);
    if fails > 0 {
        1
    } else {
        0
    }
}
