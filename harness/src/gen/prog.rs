//! Executable program generator (DESIGN.md §3): closed, terminating, mostly error-free programs
//! over the reflua AST, type-directed, with per-rule idioms mixed in.

use crate::reflua::ast::*;
use crate::rng::Rng;
use std::rc::Rc;

#[derive(Clone, Copy, Debug, PartialEq, Eq)]
pub enum T {
    Num,
    Str,
    Bool,
    /// record table with numeric fields a, b and a method `get(self, n)`
    Rec,
    /// array of numbers
    Arr,
    /// function () -> number
    Fn0,
    /// function (number) -> number
    Fn1,
    /// function (...) -> ... (returns its arguments)
    FnVar,
    /// hostile object from extt()
    Hostile,
}

#[derive(Clone, Debug)]
pub struct Var {
    pub name: String,
    pub ty: T,
    pub global: bool,
}

#[derive(Clone, Debug)]
pub struct Feat {
    pub luau: bool,
    pub types: bool,
    pub hostile: bool,
    /// constant-condition idioms, dead code, empty do, unused variables ... (default rules)
    pub idioms_default: bool,
    /// consecutive locals, local functions, method calls, sqrt (optional refactorings)
    pub idioms_refactor: bool,
    /// assert / debug.profile* calls and reads of the injected global
    pub idioms_removal: bool,
    pub inject_name: Option<String>,
    /// C09: scope stress
    pub scope_stress: bool,
    pub max_stmts: usize,
    /// avoid constructs that trigger known (open) findings
    pub avoid: Vec<String>,
}

impl Default for Feat {
    fn default() -> Self {
        Feat { luau: false, types: false, hostile: true, idioms_default: true, idioms_refactor: false, idioms_removal: false, inject_name: None, scope_stress: false, max_stmts: 40, avoid: vec![] }
    }
}

pub struct Gen<'a> {
    pub r: &'a mut Rng,
    pub f: Feat,
    scopes: Vec<Vec<Var>>,
    counter: u32,
    in_loop: u32,
    in_func: u32,
    budget: i32,
    in_vararg: bool,
    /// names that must not be declared (reserved for the model)
    reserved: Vec<&'static str>,
    pub idiom_counts: std::collections::BTreeMap<&'static str, u32>,
}

const NAMES: [&str; 24] = ["a", "b", "c", "d", "e", "f", "g", "h", "i", "j", "k", "m", "n", "p", "q", "r", "s", "t", "u", "v", "w", "x", "y", "z"];

fn num(v: f64) -> Expr {
    Expr::Number(v, String::new())
}
fn name(s: &str) -> Expr {
    Expr::Name(s.to_string())
}
fn call(f: &str, args: Vec<Expr>) -> Expr {
    Expr::call(name(f), args)
}
fn b(n: &str) -> Binding {
    Binding { name: n.to_string(), ty: None, span: (0, 0) }
}

impl<'a> Gen<'a> {
    pub fn new(r: &'a mut Rng, f: Feat) -> Gen<'a> {
        let budget = f.max_stmts as i32;
        Gen { r, f, scopes: vec![vec![]], counter: 0, in_loop: 0, in_func: 0, budget, in_vararg: false, reserved: vec![], idiom_counts: Default::default() }
    }

    fn idiom(&mut self, n: &'static str) {
        *self.idiom_counts.entry(n).or_insert(0) += 1;
    }

    fn avoid(&self, what: &str) -> bool {
        self.f.avoid.iter().any(|a| a == what)
    }

    fn fresh(&mut self) -> String {
        // reuse short names to create shadowing; sometimes a fresh long name
        if self.r.chance(1, 3) {
            let n = *self.r.pick(&NAMES);
            if !self.reserved.contains(&n) {
                return n.to_string();
            }
        }
        self.counter += 1;
        format!("v{}", self.counter)
    }

    fn vars_of(&self, ty: T) -> Vec<Var> {
        // innermost declaration of a name wins (shadowing)
        let mut seen: Vec<&str> = vec![];
        let mut out = vec![];
        for sc in self.scopes.iter().rev() {
            for v in sc.iter().rev() {
                if seen.contains(&v.name.as_str()) {
                    continue;
                }
                seen.push(&v.name);
                if v.ty == ty {
                    out.push(v.clone());
                }
            }
        }
        out
    }

    fn all_visible(&self) -> Vec<Var> {
        let mut seen: Vec<String> = vec![];
        let mut out = vec![];
        for sc in self.scopes.iter().rev() {
            for v in sc.iter().rev() {
                if seen.contains(&v.name) {
                    continue;
                }
                seen.push(v.name.clone());
                out.push(v.clone());
            }
        }
        out
    }

    fn declare(&mut self, name: &str, ty: T, global: bool) {
        let v = Var { name: name.to_string(), ty, global };
        if global {
            // a global is visible everywhere, unless shadowed: record it in the outermost scope but
            // only if no local of that name is visible (else reads would hit the local)
            self.scopes[0].push(v);
        } else {
            self.scopes.last_mut().unwrap().push(v);
        }
    }

    fn push(&mut self) {
        self.scopes.push(vec![]);
    }
    fn pop(&mut self) {
        self.scopes.pop();
    }

    // ------------------------------------------------------------------ expressions

    pub fn num_lit(&mut self) -> Expr {
        let choices = [0.0, 1.0, 2.0, 3.0, 5.0, 10.0, 0.5, 1.5, 7.0, 100.0, 255.0, 0.25, 1e3];
        let v = *self.r.pick(&choices);
        if self.r.chance(1, 8) {
            num(-v)
        } else {
            num(v)
        }
    }

    pub fn str_lit(&mut self) -> Expr {
        let choices = ["", "a", "b", "abc", "x y", "key", "10", "end", "hello", "é", "a\nb", "q\"uote", "it's", "\\", "0x10", "_id", "9lives", "\x010", "é9", "\x1b[0m", "\0007"];
        Expr::Str(self.r.pick(&choices).as_bytes().to_vec(), String::new())
    }

    pub fn expr(&mut self, ty: T, depth: u32) -> Expr {
        match ty {
            T::Num => self.num_expr(depth),
            T::Str => self.str_expr(depth),
            T::Bool => self.bool_expr(depth),
            T::Rec => self.rec_expr(depth),
            T::Arr => self.arr_expr(depth),
            T::Fn0 => self.fn_expr(T::Fn0, depth),
            T::Fn1 => self.fn_expr(T::Fn1, depth),
            T::FnVar => self.fn_expr(T::FnVar, depth),
            T::Hostile => call("extt", vec![]),
        }
    }

    fn var_of(&mut self, ty: T) -> Option<Expr> {
        let vs = self.vars_of(ty);
        if vs.is_empty() {
            None
        } else {
            Some(name(&self.r.pick(&vs).name.clone()))
        }
    }

    fn ext_args(&mut self, depth: u32) -> Vec<Expr> {
        let n = self.r.below(3);
        (0..n).map(|_| self.any_simple(depth + 1)).collect()
    }

    /// a value of a random printable type (never errors)
    fn any_simple(&mut self, depth: u32) -> Expr {
        match self.r.below(6) {
            0 | 1 => self.num_expr(depth + 1),
            2 => self.str_expr(depth + 1),
            3 => self.bool_expr(depth + 1),
            4 => Expr::Nil,
            _ => self.num_expr(depth + 1),
        }
    }

    pub fn num_expr(&mut self, depth: u32) -> Expr {
        let deep = depth >= 3;
        let w: [u32; 14] = if deep { [4, 5, 1, 0, 0, 0, 0, 0, 0, 0, 0, 0, 0, 0] } else { [3, 5, 3, 6, 1, 1, 2, 2, 1, 1, 1, 1, 1, 1] };
        match self.r.weighted(&w) {
            0 => self.num_lit(),
            1 => self.var_of(T::Num).unwrap_or_else(|| self.num_lit()),
            2 => {
                let args = self.ext_args(depth);
                call("ext", args)
            }
            3 => {
                // safe arithmetic (no division by variables that may be 0 is fine in Lua: inf/nan are values,
                // but nan/inf make later comparisons/loops odd; keep / and % with literal non-zero right operands)
                let ops = [BinOp::Add, BinOp::Sub, BinOp::Mul, BinOp::Add, BinOp::Sub];
                let op = *self.r.pick(&ops);
                let l = self.num_expr(depth + 1);
                if self.r.chance(1, 5) {
                    let dops: Vec<BinOp> = if self.f.luau { vec![BinOp::Div, BinOp::Mod, BinOp::IDiv] } else { vec![BinOp::Div, BinOp::Mod] };
                    let dop = *self.r.pick(&dops);
                    let d = *self.r.pick(&[2.0, 3.0, 4.0, 0.5, 7.0, -2.0]);
                    return Expr::bin(dop, l, num(d));
                }
                if self.r.chance(1, 12) {
                    return Expr::bin(BinOp::Pow, l, num(2.0));
                }
                let r = self.num_expr(depth + 1);
                Expr::bin(op, l, r)
            }
            4 => Expr::un(UnOp::Neg, self.num_expr(depth + 1)),
            5 => Expr::un(UnOp::Len, self.str_expr(depth + 1)),
            6 => match self.var_of(T::Rec) {
                Some(t) => {
                    if self.r.bool() {
                        Expr::field(t, if self.r.bool() { "a" } else { "b" })
                    } else {
                        Expr::index(t, Expr::str(if self.r.bool() { "a" } else { "b" }))
                    }
                }
                None => self.num_lit(),
            },
            7 => match self.var_of(T::Fn0) {
                Some(f) => Expr::call(f, vec![]),
                None => match self.var_of(T::Fn1) {
                    Some(f) => {
                        let a = self.num_expr(depth + 1);
                        Expr::call(f, vec![a])
                    }
                    None => self.num_lit(),
                },
            },
            8 => match self.var_of(T::Rec) {
                Some(t) => {
                    let a = self.num_expr(depth + 1);
                    Expr::MethodCall { obj: Box::new(t), name: "get".into(), args: vec![a], sugar: CallSugar::Parens, targs: None }
                }
                None => self.num_lit(),
            },
            9 => match self.var_of(T::Arr) {
                Some(t) => {
                    if self.r.bool() {
                        Expr::un(UnOp::Len, t)
                    } else {
                        // t[1] or 0 (arrays may be empty)
                        Expr::bin(BinOp::Or, Expr::index(t, num(1.0)), num(0.0))
                    }
                }
                None => self.num_lit(),
            },
            10 => Expr::paren(self.num_expr(depth + 1)),
            11 => {
                // (bool and num or num)
                let c = self.bool_expr(depth + 1);
                let x = self.num_expr(depth + 1);
                let y = self.num_expr(depth + 1);
                Expr::bin(BinOp::Or, Expr::bin(BinOp::And, c, x), y)
            }
            12 => {
                if self.f.luau {
                    let c = self.bool_expr(depth + 1);
                    let x = self.num_expr(depth + 1);
                    let y = self.num_expr(depth + 1);
                    Expr::IfExpr { clauses: vec![(c, x)], else_: Box::new(y) }
                } else {
                    let a = self.num_expr(depth + 1);
                    Expr::call(Expr::field(name("math"), "floor"), vec![a])
                }
            }
            _ => {
                // select('#', ...) style arity observation
                if self.in_vararg {
                    call("select", vec![Expr::str("#"), Expr::Vararg])
                } else {
                    let m = self.multi_call(depth + 1);
                    call("select", vec![Expr::str("#"), m])
                }
            }
        }
    }

    /// a call producing 0..3 values
    fn multi_call(&mut self, depth: u32) -> Expr {
        match self.r.below(4) {
            0 => {
                let a = self.ext_args(depth);
                call("extm", a)
            }
            1 => {
                let a = self.ext_args(depth);
                call("ext2", a)
            }
            2 => match self.var_of(T::FnVar) {
                Some(f) => {
                    let a = self.ext_args(depth);
                    Expr::call(f, a)
                }
                None => call("ext0", vec![]),
            },
            _ => {
                let a = self.ext_args(depth);
                call("ext", a)
            }
        }
    }

    pub fn str_expr(&mut self, depth: u32) -> Expr {
        let deep = depth >= 3;
        let w: [u32; 8] = if deep { [4, 5, 0, 0, 0, 0, 0, 0] } else { [4, 4, 3, 2, 1, 1, 1, 1] };
        match self.r.weighted(&w) {
            0 => self.str_lit(),
            1 => self.var_of(T::Str).unwrap_or_else(|| self.str_lit()),
            2 => {
                let l = if self.r.chance(1, 4) { self.small_int() } else { self.str_expr(depth + 1) };
                let r = if self.r.chance(1, 4) { self.small_int() } else { self.str_expr(depth + 1) };
                // a number literal directly left of `..` would need care when printed: wrap in parens
                let l = if matches!(l, Expr::Number(..)) { Expr::paren(l) } else { l };
                Expr::bin(BinOp::Concat, l, r)
            }
            3 => {
                let a = self.ext_args(depth);
                call("exts", a)
            }
            4 => {
                let n = self.small_int();
                call("tostring", vec![n])
            }
            5 => {
                let s = self.str_expr(depth + 1);
                let n = num(self.r.below(3) as f64);
                let recv = if matches!(s, Expr::Name(_) | Expr::Paren(_)) { s } else { Expr::paren(s) };
                Expr::MethodCall { obj: Box::new(recv), name: "rep".into(), args: vec![n], sugar: CallSugar::Parens, targs: None }
            }
            6 => {
                if self.f.luau {
                    let mut parts = vec![];
                    let n = 1 + self.r.below(3);
                    for i in 0..n {
                        if self.r.bool() || i == 0 {
                            parts.push(InterpPart::Str(self.r.pick(&["a", " ", "x=", "{", "`", "\\", "%", "50% ", "%d", "%s%%"]).as_bytes().to_vec()));
                        }
                        let e = match self.r.below(4) {
                            0 => self.small_int(),
                            1 => self.str_expr(depth + 1),
                            2 => self.bool_expr(depth + 1),
                            _ => Expr::Nil,
                        };
                        parts.push(InterpPart::Expr(e));
                    }
                    Expr::Interp(parts)
                } else {
                    let s = self.str_expr(depth + 1);
                    Expr::call(Expr::field(name("string"), "upper"), vec![s])
                }
            }
            _ => {
                let c = self.bool_expr(depth + 1);
                let x = self.str_expr(depth + 1);
                let y = self.str_expr(depth + 1);
                Expr::bin(BinOp::Or, Expr::bin(BinOp::And, c, x), y)
            }
        }
    }

    /// integer-valued number expression whose tostring is the same in both dialects
    fn small_int(&mut self) -> Expr {
        match self.r.below(3) {
            0 => num(self.r.below(50) as f64),
            _ => {
                let vs = self.vars_of(T::Num);
                let _ = vs;
                num(self.r.below(1000) as f64)
            }
        }
    }

    pub fn bool_expr(&mut self, depth: u32) -> Expr {
        let deep = depth >= 3;
        let w: [u32; 9] = if deep { [3, 3, 0, 0, 0, 0, 0, 0, 0] } else { [2, 3, 5, 2, 2, 2, 1, 1, 1] };
        match self.r.weighted(&w) {
            0 => {
                if self.r.bool() {
                    Expr::True
                } else {
                    Expr::False
                }
            }
            1 => self.var_of(T::Bool).unwrap_or(Expr::True),
            2 => {
                let ops = [BinOp::Lt, BinOp::Le, BinOp::Gt, BinOp::Ge, BinOp::Eq, BinOp::Ne];
                let op = *self.r.pick(&ops);
                let l = self.num_expr(depth + 1);
                let r = self.num_expr(depth + 1);
                Expr::bin(op, l, r)
            }
            3 => Expr::un(UnOp::Not, self.bool_expr(depth + 1)),
            4 => {
                let op = if self.r.bool() { BinOp::And } else { BinOp::Or };
                let l = self.bool_expr(depth + 1);
                let r = self.bool_expr(depth + 1);
                Expr::bin(op, l, r)
            }
            5 => {
                let a = self.ext_args(depth);
                call("extb", a)
            }
            6 => {
                let op = if self.r.bool() { BinOp::Eq } else { BinOp::Ne };
                let l = self.str_expr(depth + 1);
                let r = self.str_expr(depth + 1);
                Expr::bin(op, l, r)
            }
            7 => {
                let l = self.any_simple(depth + 1);
                Expr::bin(BinOp::Eq, l, Expr::Nil)
            }
            _ => {
                let op = if self.r.bool() { BinOp::Lt } else { BinOp::Le };
                let l = self.str_expr(depth + 1);
                let r = self.str_expr(depth + 1);
                Expr::bin(op, l, r)
            }
        }
    }

    fn rec_expr(&mut self, depth: u32) -> Expr {
        if depth > 1 || self.r.chance(1, 3) {
            if let Some(v) = self.var_of(T::Rec) {
                return v;
            }
        }
        // { a = num, b = num, get = function(self, n) return self.a + n end }
        let a = self.num_expr(depth + 1);
        let bb = self.num_expr(depth + 1);
        let body = Block { stmts: vec![Stmt::Return(vec![Expr::bin(BinOp::Add, Expr::field(name("self"), "a"), name("n"))])] };
        let get = Expr::Function(Rc::new(FuncBody { params: vec![b("self"), b("n")], is_vararg: false, vararg_ty: None, generics: None, ret_ty: None, body, attributes: vec![] }));
        let mut items = vec![];
        if self.r.bool() {
            items.push(TableItem::Named("a".into(), a));
            items.push(TableItem::Named("b".into(), bb));
        } else {
            items.push(TableItem::Keyed(Expr::str("a"), a));
            items.push(TableItem::Named("b".into(), bb));
        }
        items.push(TableItem::Named("get".into(), get));
        Expr::Table(items)
    }

    fn arr_expr(&mut self, depth: u32) -> Expr {
        if depth > 1 || self.r.chance(1, 3) {
            if let Some(v) = self.var_of(T::Arr) {
                return v;
            }
        }
        let n = self.r.below(4);
        let mut items: Vec<TableItem> = (0..n).map(|_| TableItem::Pos(self.num_expr(depth + 1))).collect();
        if self.r.chance(1, 4) {
            // multi-value tail
            let m = self.multi_call(depth + 1);
            items.push(TableItem::Pos(m));
        }
        Expr::Table(items)
    }

    fn fn_expr(&mut self, ty: T, depth: u32) -> Expr {
        if depth > 0 && self.r.chance(2, 3) {
            if let Some(v) = self.var_of(ty) {
                return v;
            }
        }
        Expr::Function(self.func_body(ty, vec![]))
    }

    /// builds a function body of the given kind; `extra_params` are prepended (e.g. self)
    fn func_body(&mut self, ty: T, extra_params: Vec<&str>) -> Rc<FuncBody> {
        self.push();
        let saved_loop = self.in_loop;
        let saved_va = self.in_vararg;
        self.in_loop = 0;
        self.in_func += 1;
        let mut params: Vec<Binding> = extra_params.iter().map(|p| b(p)).collect();
        let mut is_vararg = false;
        match ty {
            T::Fn0 => {}
            T::Fn1 => {
                let p = self.fresh();
                self.declare(&p, T::Num, false);
                params.push(b(&p));
            }
            T::FnVar => is_vararg = true,
            _ => {}
        }
        self.in_vararg = is_vararg;
        let n = self.r.below(3);
        let mut stmts = vec![];
        for _ in 0..n {
            if self.budget <= 0 {
                break;
            }
            self.stmt(&mut stmts, 2);
        }
        let ret = match ty {
            T::FnVar => {
                if self.r.bool() {
                    vec![Expr::Vararg]
                } else {
                    vec![call("select", vec![Expr::str("#"), Expr::Vararg]), Expr::Vararg]
                }
            }
            _ => vec![self.num_expr(1)],
        };
        stmts.push(Stmt::Return(ret));
        self.in_vararg = saved_va;
        self.in_func -= 1;
        self.in_loop = saved_loop;
        self.pop();
        Rc::new(FuncBody { params, is_vararg, vararg_ty: None, generics: None, ret_ty: None, body: Block { stmts }, attributes: vec![] })
    }

    // ------------------------------------------------------------------ statements

    fn block(&mut self, max: usize, depth: u32) -> Block {
        self.push();
        let n = 1 + self.r.below(max.max(1));
        let mut stmts = vec![];
        for _ in 0..n {
            if self.budget <= 0 {
                break;
            }
            self.stmt(&mut stmts, depth + 1);
        }
        self.pop();
        Block { stmts }
    }

    fn sink_stmt(&mut self, depth: u32) -> Stmt {
        let n = 1 + self.r.below(3);
        let mut args: Vec<Expr> = (0..n).map(|_| self.any_simple(depth)).collect();
        if self.r.chance(1, 4) {
            let m = self.multi_call(depth);
            args.push(m);
        }
        Stmt::Call(call("sink", args))
    }

    fn random_ty(&mut self) -> T {
        let w = [6, 3, 3, 2, 2, 1, 1, 1, if self.f.hostile { 1 } else { 0 }];
        [T::Num, T::Str, T::Bool, T::Rec, T::Arr, T::Fn0, T::Fn1, T::FnVar, T::Hostile][self.r.weighted(&w)]
    }

    pub fn stmt(&mut self, out: &mut Vec<Stmt>, depth: u32) {
        self.budget -= 1;
        let nest_ok = depth < 4;
        let mut w: Vec<u32> = vec![
            8,                                                   // 0 local
            5,                                                   // 1 assignment
            6,                                                   // 2 sink
            if nest_ok { 4 } else { 0 },                          // 3 if
            if nest_ok { 2 } else { 0 },                          // 4 while
            if nest_ok { 2 } else { 0 },                          // 5 numeric for
            if nest_ok { 1 } else { 0 },                          // 6 generic for
            if nest_ok { 1 } else { 0 },                          // 7 repeat
            if nest_ok { 1 } else { 0 },                          // 8 do
            if nest_ok { 2 } else { 0 },                          // 9 function definition
            if self.in_loop > 0 { 1 } else { 0 },                 // 10 break (guarded)
            if self.f.idioms_default { 6 } else { 0 },            // 11 default-rule idiom
            if self.f.luau { 5 } else { 0 },                      // 12 luau statement idiom
            if self.f.idioms_refactor { 6 } else { 0 },           // 13 refactor idiom
            if self.f.idioms_removal { 6 } else { 0 },            // 14 removal idiom
            if self.f.hostile { 1 } else { 0 },                   // 15 hostile ops
            2,                                                   // 16 call statement of a known function / method
        ];
        if self.f.scope_stress {
            w[0] += 8;
            w[8] += 3;
            w[9] += 4;
        }
        match self.r.weighted(&w) {
            0 => self.local_stmt(out, depth),
            1 => self.assign_stmt(out, depth),
            2 => out.push(self.sink_stmt(depth)),
            3 => {
                let n = 1 + self.r.below(3);
                let mut clauses = vec![];
                for _ in 0..n {
                    let c = self.bool_expr(1);
                    let bl = self.block(3, depth);
                    clauses.push((c, bl));
                }
                let else_block = if self.r.bool() { Some(self.block(3, depth)) } else { None };
                out.push(Stmt::If { clauses, else_block });
            }
            4 => {
                // bounded while: local i = 0 while i < K do i = i + 1 ... end
                let i = self.fresh();
                let k = 1 + self.r.below(4);
                out.push(Stmt::Local { names: vec![b(&i)], values: vec![num(0.0)], is_const: false });
                self.declare(&i, T::Num, false);
                self.in_loop += 1;
                self.push();
                let mut body = vec![Stmt::Assign { targets: vec![name(&i)], values: vec![Expr::bin(BinOp::Add, name(&i), num(1.0))] }];
                let n = self.r.below(3);
                for _ in 0..n {
                    if self.budget > 0 {
                        self.loop_body_stmt(&mut body, depth + 1, &i);
                    }
                }
                self.pop();
                self.in_loop -= 1;
                out.push(Stmt::While { cond: Expr::bin(BinOp::Lt, name(&i), num(k as f64)), body: Block { stmts: body } });
            }
            5 => {
                let i = self.fresh();
                let (a, bnd, step) = match self.r.below(4) {
                    0 => (1.0, 3.0, None),
                    1 => (3.0, 1.0, Some(-1.0)),
                    2 => (0.0, 1.0, Some(0.5)),
                    _ => (1.0, 0.0, None),
                };
                self.in_loop += 1;
                self.push();
                self.declare(&i, T::Num, false);
                let mut body = vec![];
                let n = 1 + self.r.below(3);
                for _ in 0..n {
                    if self.budget > 0 {
                        self.loop_body_stmt(&mut body, depth + 1, &i);
                    }
                }
                self.pop();
                self.in_loop -= 1;
                out.push(Stmt::NumFor { var: b(&i), start: num(a), limit: num(bnd), step: step.map(num), body: Block { stmts: body } });
            }
            6 => {
                let k = self.fresh();
                let v = self.fresh();
                let arr = self.arr_expr(1);
                self.in_loop += 1;
                self.push();
                self.declare(&k, T::Num, false);
                if v != k {
                    self.declare(&v, T::Num, false);
                }
                let mut body = vec![];
                let n = 1 + self.r.below(2);
                for _ in 0..n {
                    if self.budget > 0 {
                        self.loop_body_stmt(&mut body, depth + 1, &k);
                    }
                }
                self.pop();
                self.in_loop -= 1;
                out.push(Stmt::GenFor { vars: vec![b(&k), b(&v)], exprs: vec![call("ipairs", vec![arr])], body: Block { stmts: body } });
            }
            7 => {
                // repeat local j = i; i = i + 1 ... until j >= K   (condition reads a body local)
                let i = self.fresh();
                let j = self.fresh();
                let j = if j == i { format!("{}j", i) } else { j };
                let k = self.r.below(3);
                out.push(Stmt::Local { names: vec![b(&i)], values: vec![num(0.0)], is_const: false });
                self.declare(&i, T::Num, false);
                self.in_loop += 1;
                self.push();
                let mut body = vec![
                    Stmt::Local { names: vec![b(&j)], values: vec![name(&i)], is_const: false },
                    Stmt::Assign { targets: vec![name(&i)], values: vec![Expr::bin(BinOp::Add, name(&i), num(1.0))] },
                ];
                self.declare(&j, T::Num, false);
                let n = self.r.below(3);
                let j_is_i = j == i;
                for _ in 0..n {
                    if self.budget > 0 && !j_is_i {
                        self.loop_body_stmt(&mut body, depth + 1, &i);
                    }
                }
                self.pop();
                self.in_loop -= 1;
                let cond = if j_is_i { Expr::bin(BinOp::Ge, name(&i), num(k as f64 + 1.0)) } else { Expr::bin(BinOp::Ge, name(&j), num(k as f64)) };
                out.push(Stmt::Repeat { body: Block { stmts: body }, cond });
            }
            8 => {
                let bl = self.block(3, depth);
                out.push(Stmt::Do(bl));
            }
            9 => self.func_def(out, depth),
            10 => {
                let c = self.bool_expr(1);
                out.push(Stmt::If { clauses: vec![(c, Block { stmts: vec![Stmt::Break] })], else_block: None });
            }
            11 => self.idiom_default(out, depth),
            12 => self.idiom_luau(out, depth),
            13 => self.idiom_refactor(out, depth),
            14 => self.idiom_removal(out, depth),
            15 => self.hostile_stmt(out, depth),
            _ => {
                if let Some(f) = self.var_of(T::FnVar) {
                    let a = self.ext_args(1);
                    out.push(Stmt::Call(Expr::call(f, a)));
                } else if let Some(t) = self.var_of(T::Rec) {
                    let a = self.num_expr(1);
                    out.push(Stmt::Call(Expr::MethodCall { obj: Box::new(t), name: "get".into(), args: vec![a], sugar: CallSugar::Parens, targs: None }));
                } else {
                    out.push(self.sink_stmt(depth));
                }
            }
        }
    }

    /// statements allowed inside loop bodies: must not assign the loop counter
    fn loop_body_stmt(&mut self, out: &mut Vec<Stmt>, depth: u32, counter: &str) {
        // temporarily hide the counter from assignment by marking it reserved through a Bool-typed alias:
        // simplest: generate a statement and reject (regenerate) if it assigns the counter
        for _ in 0..6 {
            let mut tmp = vec![];
            let saved_scopes = self.scopes.clone();
            let saved_budget = self.budget;
            self.stmt(&mut tmp, depth);
            let bad = tmp.iter().any(|s| assigns_name(s, counter));
            if !bad {
                out.extend(tmp);
                return;
            }
            self.scopes = saved_scopes;
            self.budget = saved_budget;
        }
        out.push(self.sink_stmt(depth));
    }

    fn local_stmt(&mut self, out: &mut Vec<Stmt>, depth: u32) {
        let n = 1 + self.r.weighted(&[6, 2, 1]);
        let mut names = vec![];
        let mut tys = vec![];
        let mut values = vec![];
        for _ in 0..n {
            let nm = self.fresh();
            let ty = self.random_ty();
            values.push(self.expr(ty, 1));
            names.push(nm);
            tys.push(ty);
        }
        // variations in arity
        match self.r.below(8) {
            0 if n > 1 => {
                // fewer values: trailing names are nil -> do not register them as typed variables
                values.pop();
                let last = names.len() - 1;
                tys[last] = T::Num; // placeholder, not declared below
                out.push(Stmt::Local { names: names.iter().map(|n| b(n)).collect(), values, is_const: false });
                for (i, nm) in names.iter().enumerate() {
                    if i != last {
                        self.declare(nm, tys[i], false);
                    } else {
                        self.undeclare(nm);
                    }
                }
                return;
            }
            1 => {
                // extra value (evaluated, discarded)
                let e = self.any_simple(depth);
                values.push(e);
            }
            _ => {}
        }
        let _ = depth;
        out.push(Stmt::Local { names: names.iter().map(|n| b(n)).collect(), values, is_const: false });
        // duplicates: the last declaration of a name wins
        for (i, nm) in names.iter().enumerate() {
            if names[i + 1..].contains(nm) {
                continue;
            }
            self.declare(nm, tys[i], false);
        }
    }

    /// a name that now holds nil (or an untyped value): hide any typed variable of that name
    fn undeclare(&mut self, nm: &str) {
        // shadow with a dummy type nobody asks for
        self.scopes.last_mut().unwrap().push(Var { name: nm.to_string(), ty: T::Hostile, global: false });
        // Hostile-typed variables are used for hostile ops; to be safe use a distinct marker: remove it from hostile use
        let l = self.scopes.last_mut().unwrap();
        let idx = l.len() - 1;
        l[idx].global = true; // marker: not a real hostile var (see hostile_stmt)
    }

    fn assign_stmt(&mut self, out: &mut Vec<Stmt>, depth: u32) {
        let vis: Vec<Var> = self.all_visible().into_iter().filter(|v| !(v.ty == T::Hostile && v.global)).collect();
        let _ = depth;
        if (vis.is_empty() || self.r.chance(1, 5)) && self.scopes.len() == 1 && self.in_func == 0 {
            // new global
            self.counter += 1;
            let g = format!("G{}", self.counter);
            let ty = self.random_ty();
            let e = self.expr(ty, 1);
            out.push(Stmt::Assign { targets: vec![name(&g)], values: vec![e] });
            self.declare(&g, ty, true);
            return;
        }
        if vis.is_empty() {
            out.push(self.sink_stmt(depth));
            return;
        }
        let v = self.r.pick(&vis).clone();
        match v.ty {
            T::Rec if self.r.bool() => {
                let e = self.num_expr(1);
                let target = if self.r.bool() { Expr::field(name(&v.name), "a") } else { Expr::index(name(&v.name), Expr::str("b")) };
                out.push(Stmt::Assign { targets: vec![target], values: vec![e] });
            }
            T::Arr if self.r.bool() => {
                let e = self.num_expr(1);
                // append: t[#t + 1] = e
                let target = Expr::index(name(&v.name), Expr::bin(BinOp::Add, Expr::un(UnOp::Len, name(&v.name)), num(1.0)));
                out.push(Stmt::Assign { targets: vec![target], values: vec![e] });
            }
            _ => {
                if self.r.chance(1, 6) {
                    // swap / multiple assignment between two variables of the same type
                    let same: Vec<Var> = vis.iter().filter(|o| o.ty == v.ty && o.name != v.name).cloned().collect();
                    if let Some(o) = same.first() {
                        out.push(Stmt::Assign { targets: vec![name(&v.name), name(&o.name)], values: vec![name(&o.name), name(&v.name)] });
                        return;
                    }
                }
                let e = self.expr(v.ty, 1);
                out.push(Stmt::Assign { targets: vec![name(&v.name)], values: vec![e] });
            }
        }
    }

    fn func_def(&mut self, out: &mut Vec<Stmt>, depth: u32) {
        let _ = depth;
        let ty = *self.r.pick(&[T::Fn0, T::Fn1, T::FnVar]);
        match self.r.below(4) {
            0 => {
                // local function (may recurse: f(n) with a decreasing guard)
                let nm = self.fresh();
                if ty == T::Fn1 && self.r.bool() {
                    // recursive: local function f(n) if n <= 0 then return 0 end return n + f(n - 1) end
                    let body = Block {
                        stmts: vec![
                            Stmt::If { clauses: vec![(Expr::bin(BinOp::Le, name("n"), num(0.0)), Block { stmts: vec![Stmt::Return(vec![num(0.0)])] })], else_block: None },
                            Stmt::Return(vec![Expr::bin(BinOp::Add, name("n"), Expr::call(name(&nm), vec![Expr::bin(BinOp::Sub, name("n"), num(1.0))]))]),
                        ],
                    };
                    if nm != "n" {
                        out.push(Stmt::LocalFunction { name: nm.clone(), func: Rc::new(FuncBody { params: vec![b("n")], is_vararg: false, vararg_ty: None, generics: None, ret_ty: None, body, attributes: vec![] }) });
                        self.declare(&nm, T::Fn1, false);
                        // call it with a small literal to keep recursion bounded
                        out.push(Stmt::Call(call("sink", vec![Expr::call(name(&nm), vec![num(self.r.below(4) as f64)])])));
                        return;
                    }
                }
                self.declare(&nm, ty, false); // visible to its own body (recursion through Fn0 would not terminate: hide)
                self.scopes.last_mut().unwrap().pop();
                let f = self.func_body(ty, vec![]);
                out.push(Stmt::LocalFunction { name: nm.clone(), func: f });
                self.declare(&nm, ty, false);
            }
            1 => {
                // local f = function ... end
                let nm = self.fresh();
                let f = self.func_body(ty, vec![]);
                out.push(Stmt::Local { names: vec![b(&nm)], values: vec![Expr::Function(f)], is_const: false });
                self.declare(&nm, ty, false);
            }
            2 if self.scopes.len() == 1 && self.in_func == 0 => {
                // global function
                self.counter += 1;
                let g = format!("F{}", self.counter);
                let f = self.func_body(ty, vec![]);
                out.push(Stmt::Function { name: FuncName { base: g.clone(), fields: vec![], method: None }, func: f });
                self.declare(&g, ty, true);
            }
            _ => {
                // method / field function on a record: function t.f(n) / function t:m(n)
                if let Some(Expr::Name(t)) = self.var_of(T::Rec) {
                    if self.r.bool() {
                        let f = self.func_body(T::Fn1, vec![]);
                        out.push(Stmt::Function { name: FuncName { base: t.clone(), fields: vec!["f".into()], method: None }, func: f });
                        let a = self.num_expr(1);
                        out.push(Stmt::Call(call("sink", vec![Expr::call(Expr::field(name(&t), "f"), vec![a])])));
                    } else {
                        // function t:m(n) return self.b + n end
                        let body = Block { stmts: vec![Stmt::Return(vec![Expr::bin(BinOp::Add, Expr::field(name("self"), "b"), name("n"))])] };
                        let f = Rc::new(FuncBody { params: vec![b("n")], is_vararg: false, vararg_ty: None, generics: None, ret_ty: None, body, attributes: vec![] });
                        out.push(Stmt::Function { name: FuncName { base: t.clone(), fields: vec![], method: Some("m".into()) }, func: f });
                        let a = self.num_expr(1);
                        out.push(Stmt::Call(call("sink", vec![Expr::MethodCall { obj: Box::new(name(&t)), name: "m".into(), args: vec![a], sugar: CallSugar::Parens, targs: None }])));
                    }
                } else {
                    let nm = self.fresh();
                    let e = self.rec_expr(0);
                    out.push(Stmt::Local { names: vec![b(&nm)], values: vec![e], is_const: false });
                    self.declare(&nm, T::Rec, false);
                }
            }
        }
    }

    fn hostile_stmt(&mut self, out: &mut Vec<Stmt>, depth: u32) {
        let _ = depth;
        let hs: Vec<Var> = self.vars_of(T::Hostile).into_iter().filter(|v| !v.global).collect();
        if hs.is_empty() {
            let nm = self.fresh();
            out.push(Stmt::Local { names: vec![b(&nm)], values: vec![call("extt", vec![])], is_const: false });
            self.declare(&nm, T::Hostile, false);
            return;
        }
        let h = name(&self.r.pick(&hs).name.clone());
        let k = self.any_key();
        let e = match self.r.below(8) {
            0 => Expr::index(h, k),
            1 => Expr::field(h, "fld"),
            2 => {
                let a = self.ext_args(1);
                Expr::call(h, a)
            }
            3 => {
                let n = self.num_expr(2);
                Expr::bin(*self.r.pick(&[BinOp::Add, BinOp::Sub, BinOp::Mul, BinOp::Div, BinOp::Mod, BinOp::Pow]), h, n)
            }
            4 => {
                let s = self.str_expr(2);
                Expr::bin(BinOp::Concat, s, h)
            }
            5 => Expr::un(UnOp::Neg, h),
            6 => {
                let a = self.ext_args(1);
                Expr::MethodCall { obj: Box::new(h), name: "meth".into(), args: a, sugar: CallSugar::Parens, targs: None }
            }
            _ => {
                // assignment through __newindex
                let v = self.any_simple(1);
                out.push(Stmt::Assign { targets: vec![Expr::index(h, k)], values: vec![v] });
                return;
            }
        };
        out.push(Stmt::Call(call("sink", vec![e])));
    }

    fn any_key(&mut self) -> Expr {
        match self.r.below(4) {
            0 => Expr::str("key"),
            1 => num(1.0),
            2 => call("ext", vec![Expr::str("k")]),
            _ => Expr::str("end"),
        }
    }

    // ------------------------------------------------------------------ idioms: default rules

    fn const_cond(&mut self, depth: u32) -> Expr {
        // conditions the evaluator can (or almost can) decide
        match self.r.below(14) {
            0 => Expr::True,
            1 => Expr::False,
            2 => Expr::Nil,
            3 => num(0.0),
            4 => Expr::str(""),
            5 => Expr::un(UnOp::Not, Expr::True),
            6 => Expr::bin(BinOp::Eq, num(1.0), num(1.0)),
            7 => Expr::bin(BinOp::Lt, num(2.0), num(1.0)),
            8 => Expr::bin(BinOp::And, Expr::True, self.bool_expr(depth + 1)),
            9 => Expr::bin(BinOp::Or, Expr::False, self.bool_expr(depth + 1)),
            10 => {
                // side effect in a decided condition: (ext() and false) / (ext() or true)
                let e = call("ext", vec![Expr::str("c")]);
                if self.r.bool() {
                    Expr::bin(BinOp::And, e, Expr::False)
                } else {
                    Expr::bin(BinOp::Or, e, Expr::True)
                }
            }
            11 => Expr::bin(BinOp::Eq, Expr::str("a"), Expr::str("a")),
            12 => Expr::bin(BinOp::And, Expr::False, call("ext", vec![Expr::str("never")])),
            _ => Expr::bin(BinOp::Ne, Expr::bin(BinOp::Add, num(1.0), num(1.0)), num(2.0)),
        }
    }

    fn idiom_default(&mut self, out: &mut Vec<Stmt>, depth: u32) {
        let nest_ok = depth < 4;
        match self.r.below(16) {
            0 | 1 if nest_ok => {
                self.idiom("const_if");
                let n = 1 + self.r.below(3);
                let mut clauses = vec![];
                for _ in 0..n {
                    let c = if self.r.chance(2, 3) { self.const_cond(1) } else { self.bool_expr(1) };
                    let bl = self.block(2, depth);
                    clauses.push((c, bl));
                }
                let else_block = if self.r.bool() { Some(self.block(2, depth)) } else { None };
                out.push(Stmt::If { clauses, else_block });
            }
            2 if nest_ok => {
                self.idiom("const_while");
                let c = match self.r.below(4) {
                    0 => Expr::False,
                    1 => Expr::Nil,
                    2 => Expr::bin(BinOp::And, call("ext", vec![Expr::str("w")]), Expr::False),
                    _ => Expr::bin(BinOp::Lt, num(2.0), num(1.0)),
                };
                self.in_loop += 1;
                let bl = self.block(2, depth);
                self.in_loop -= 1;
                out.push(Stmt::While { cond: c, body: bl });
            }
            3 if nest_ok && self.in_func > 0 => {
                self.idiom("early_return");
                // do return <v> end  followed by dead statements
                let v = self.num_expr(1);
                out.push(Stmt::Do(Block { stmts: vec![Stmt::Return(vec![v])] }));
                out.push(self.sink_stmt(depth));
            }
            4 if nest_ok => {
                self.idiom("empty_do");
                let inner = if self.r.bool() { Block { stmts: vec![Stmt::Do(Block::default())] } } else { Block::default() };
                out.push(Stmt::Do(inner));
            }
            5 | 6 => {
                self.idiom("unused_local");
                let nm = format!("unused{}", {
                    self.counter += 1;
                    self.counter
                });
                let n = 1 + self.r.below(2);
                let mut names = vec![b(&nm)];
                if n == 2 {
                    names.push(b(&format!("{}b", nm)));
                }
                if self.f.hostile && self.r.chance(1, 5) {
                    // values that are not calls but have an effect (a field of an object whose __index logs), around a call
                    let h = self.fresh();
                    out.push(Stmt::Local { names: vec![b(&h)], values: vec![call("extt", vec![])], is_const: false });
                    self.undeclare(&h);
                    let k = 2 + self.r.below(3);
                    let mut names = vec![];
                    let mut vals = vec![];
                    for i in 0..k {
                        names.push(b(&format!("{}_{}", nm, i)));
                        vals.push(match self.r.below(3) {
                            0 => call("ext", vec![Expr::str("mid")]),
                            1 => Expr::field(name(&h), &format!("f{}", i)),
                            _ => Expr::index(name(&h), num(i as f64)),
                        });
                    }
                    out.push(Stmt::Local { names, values: vals, is_const: false });
                    return;
                }
                let vals: Vec<Expr> = match self.r.below(6) {
                    0 => vec![self.num_lit()],
                    1 => vec![call("ext", vec![Expr::str("u")])],
                    2 => vec![self.multi_call(1)],
                    3 => vec![self.num_lit(), call("ext", vec![Expr::str("u2")]), self.str_lit()],
                    4 => vec![],
                    _ => vec![Expr::Function(self.func_body(T::Fn0, vec![]))],
                };
                out.push(Stmt::Local { names, values: vals, is_const: false });
            }
            7 | 8 => {
                self.idiom("index_to_field");
                let keys = ["key", "end", "a b", "_x", "9a", "nil", "x1", ""];
                let k = *self.r.pick(&keys);
                let nm = self.fresh();
                let v = self.num_expr(1);
                out.push(Stmt::Local { names: vec![b(&nm)], values: vec![Expr::Table(vec![TableItem::Keyed(Expr::str(k), v)])], is_const: false });
                self.undeclare(&nm);
                let rd = Expr::index(name(&nm), Expr::str(k));
                let v2 = self.num_expr(1);
                out.push(Stmt::Assign { targets: vec![Expr::index(name(&nm), Expr::str(k))], values: vec![v2] });
                out.push(Stmt::Call(call("sink", vec![rd, Expr::index(name("_G"), Expr::str("sink")) ])));
            }
            9 => {
                self.idiom("nil_declaration");
                let a = self.fresh();
                let c = self.fresh();
                let e = match self.r.below(4) {
                    0 => vec![Expr::Nil, call("ext", vec![Expr::str("n")])],
                    1 => vec![Expr::Nil, Expr::Nil],
                    2 => vec![call("ext", vec![Expr::str("n")]), Expr::Nil],
                    _ => vec![Expr::Nil],
                };
                if a != c || !self.avoid("local_duplicate_names_with_nil") {
                    out.push(Stmt::Local { names: vec![b(&a), b(&c)], values: e, is_const: false });
                    self.undeclare(&a);
                    self.undeclare(&c);
                    out.push(Stmt::Call(call("sink", vec![name(&a), name(&c)])));
                }
            }
            10 => {
                self.idiom("call_parens");
                let arg = if self.r.bool() { Expr::str("only") } else { Expr::Table(vec![TableItem::Pos(num(1.0))]) };
                let f = match self.r.below(3) {
                    0 => name("sink"),
                    1 => name("ext"),
                    _ => name("print"),
                };
                let sugar = match self.r.below(3) {
                    0 => CallSugar::Parens,
                    1 if matches!(arg, Expr::Str(..)) => CallSugar::Str,
                    1 => CallSugar::Table,
                    _ => CallSugar::Parens,
                };
                out.push(Stmt::Call(Expr::Call { func: Box::new(f), args: vec![arg], sugar }));
            }
            11 => {
                self.idiom("method_def");
                let nm = self.fresh();
                out.push(Stmt::Local { names: vec![b(&nm)], values: vec![Expr::Table(vec![TableItem::Named("b".into(), num(2.0)), TableItem::Named("a".into(), num(1.0))])], is_const: false });
                let body = Block { stmts: vec![Stmt::Return(vec![Expr::bin(BinOp::Add, Expr::field(name("self"), "a"), name("n"))])] };
                let f = Rc::new(FuncBody { params: vec![b("n")], is_vararg: false, vararg_ty: None, generics: None, ret_ty: None, body, attributes: vec![] });
                out.push(Stmt::Function { name: FuncName { base: nm.clone(), fields: vec![], method: Some("get".into()) }, func: f });
                self.declare(&nm, T::Rec, false);
            }
            12 => {
                self.idiom("compute_fold");
                // foldable expressions in observable positions
                let e = match self.r.below(8) {
                    0 => Expr::bin(BinOp::Add, num(1.0), num(2.0)),
                    1 => Expr::bin(BinOp::Concat, Expr::str("a"), Expr::str("b")),
                    2 => Expr::bin(BinOp::Concat, Expr::str("n="), Expr::paren(num(12.0))),
                    3 => Expr::bin(BinOp::And, Expr::True, self.num_expr(2)),
                    4 => Expr::bin(BinOp::Or, Expr::Nil, self.num_expr(2)),
                    5 => Expr::bin(BinOp::Mod, num(-7.0), num(3.0)),
                    6 => Expr::bin(BinOp::Div, num(1.0), num(4.0)),
                    _ => Expr::un(UnOp::Not, Expr::bin(BinOp::Eq, num(1.0), num(2.0))),
                };
                out.push(Stmt::Call(call("sink", vec![e])));
            }
            13 if !self.avoid("and_or_multivalue_tail") => {
                self.idiom("and_or_multi_tail");
                // (true and f()) in a multi-value position
                let m = self.multi_call(1);
                let e = if self.r.bool() { Expr::bin(BinOp::And, Expr::True, m) } else { Expr::bin(BinOp::Or, Expr::False, m) };
                out.push(Stmt::Call(call("sink", vec![num(0.0), e])));
            }
            14 => {
                self.idiom("unused_after_use");
                // a local used only inside a nested function
                let nm = self.fresh();
                let v = self.num_expr(1);
                out.push(Stmt::Local { names: vec![b(&nm)], values: vec![v], is_const: false });
                self.declare(&nm, T::Num, false);
                let f = self.fresh();
                if f != nm {
                    let body = Block { stmts: vec![Stmt::Return(vec![name(&nm)])] };
                    out.push(Stmt::Local { names: vec![b(&f)], values: vec![Expr::Function(Rc::new(FuncBody { params: vec![], is_vararg: false, vararg_ty: None, generics: None, ret_ty: None, body, attributes: vec![] }))], is_const: false });
                    self.declare(&f, T::Fn0, false);
                }
            }
            _ => out.push(self.sink_stmt(depth)),
        }
    }

    // ------------------------------------------------------------------ idioms: Luau

    fn idiom_luau(&mut self, out: &mut Vec<Stmt>, depth: u32) {
        let nest_ok = depth < 4;
        match self.r.below(10) {
            0 | 1 => {
                self.idiom("compound_assign");
                let vis = self.all_visible();
                let nums: Vec<Var> = vis.iter().filter(|v| v.ty == T::Num).cloned().collect();
                let strs: Vec<Var> = vis.iter().filter(|v| v.ty == T::Str).cloned().collect();
                let recs: Vec<Var> = vis.iter().filter(|v| v.ty == T::Rec).cloned().collect();
                match self.r.below(5) {
                    0 if !strs.is_empty() => {
                        let v = self.r.pick(&strs).name.clone();
                        let e = self.str_expr(1);
                        out.push(Stmt::CompoundAssign { target: name(&v), op: BinOp::Concat, value: e });
                    }
                    1 if !recs.is_empty() => {
                        let v = self.r.pick(&recs).name.clone();
                        let e = self.num_expr(1);
                        let target = if self.r.bool() { Expr::field(name(&v), "a") } else { Expr::index(name(&v), Expr::str("b")) };
                        out.push(Stmt::CompoundAssign { target, op: *self.r.pick(&[BinOp::Add, BinOp::Sub, BinOp::Mul]), value: e });
                    }
                    2 if self.f.hostile => {
                        // prefix and key with side effects: extt()[ext("k")] += ext("v")
                        let any = || Box::new(Ty { kind: "name", text: "any".into(), kids: vec![], exprs: vec![] });
                        let k0 = call("ext", vec![Expr::str("k")]);
                        // every shape of key the rule tells apart, each with a side effect inside
                        let key = match self.r.below(12) {
                            0 => Expr::Cast(Box::new(k0), any()),
                            1 => Expr::paren(k0),
                            2 => Expr::bin(BinOp::Concat, k0, Expr::str("x")),
                            3 => Expr::Unary(UnOp::Neg, Box::new(k0)),
                            4 => Expr::IfExpr { clauses: vec![(call("extb", vec![]), Expr::str("a"))], else_: Box::new(Expr::str("b")) },
                            5 => Expr::Interp(vec![InterpPart::Str(b"k".to_vec()), InterpPart::Expr(k0)]),
                            6 => Expr::index(call("extt", vec![]), num(1.0)),
                            7 => Expr::field(call("extt", vec![]), "kf"),
                            8 => Expr::paren(Expr::Cast(Box::new(k0), any())),
                            _ => k0,
                        };
                        let val = call("ext", vec![Expr::str("v")]);
                        let p0 = call("extt", vec![]);
                        let pre = match self.r.below(6) {
                            0 => Expr::paren(p0),
                            1 => Expr::paren(Expr::Cast(Box::new(p0), any())),
                            2 => Expr::field(Expr::paren(Expr::Table(vec![TableItem::Named("t".into(), p0)])), "t"),
                            3 => Expr::index(Expr::paren(Expr::Table(vec![TableItem::Named("t".into(), p0)])), Expr::str("t")),
                            _ => p0,
                        };
                        let target = if self.r.chance(2, 3) { Expr::index(pre, key) } else { Expr::field(pre, "fld") };
                        out.push(Stmt::CompoundAssign { target, op: *self.r.pick(&[BinOp::Add, BinOp::Concat, BinOp::Div]), value: val });
                    }
                    3 if !recs.is_empty() => {
                        // nested prefix call: (function() sink("p") return t end)().a += ...
                        let v = self.r.pick(&recs).name.clone();
                        let body = Block { stmts: vec![Stmt::Call(call("sink", vec![Expr::str("prefix")])), Stmt::Return(vec![name(&v)])] };
                        let f = Expr::Function(Rc::new(FuncBody { params: vec![], is_vararg: false, vararg_ty: None, generics: None, ret_ty: None, body, attributes: vec![] }));
                        let pre = Expr::call(Expr::paren(f), vec![]);
                        let e = self.num_expr(1);
                        out.push(Stmt::CompoundAssign { target: Expr::field(pre, "a"), op: BinOp::Add, value: e });
                    }
                    _ if !nums.is_empty() => {
                        let v = self.r.pick(&nums).name.clone();
                        let e = self.num_expr(1);
                        let ops = [BinOp::Add, BinOp::Sub, BinOp::Mul, BinOp::Div, BinOp::Mod, BinOp::IDiv, BinOp::Pow];
                        let op = *self.r.pick(&ops);
                        let e = if matches!(op, BinOp::Div | BinOp::Mod | BinOp::IDiv | BinOp::Pow) { num(2.0) } else { e };
                        out.push(Stmt::CompoundAssign { target: name(&v), op, value: e });
                    }
                    _ => out.push(self.sink_stmt(depth)),
                }
            }
            2 | 3 if nest_ok => {
                self.idiom("continue_loop");
                // loop with continue (and maybe break)
                let i = self.fresh();
                self.in_loop += 1;
                self.push();
                self.declare(&i, T::Num, false);
                let mut body = vec![];
                let c = Expr::bin(BinOp::Eq, Expr::bin(BinOp::Mod, name(&i), num(2.0)), num(0.0));
                if self.r.chance(1, 3) {
                    // a function (never called) that holds a loop with an empty body, written before the `continue`
                    let inner = match self.r.below(4) {
                        0 => Stmt::While { cond: Expr::False, body: Block { stmts: vec![] } },
                        1 => Stmt::Repeat { body: Block { stmts: vec![] }, cond: Expr::True },
                        2 => Stmt::NumFor { var: b("_"), start: num(1.0), limit: num(0.0), step: None, body: Block { stmts: vec![] } },
                        _ => Stmt::GenFor { vars: vec![b("_")], exprs: vec![call("pairs", vec![Expr::Table(vec![])])], body: Block { stmts: vec![] } },
                    };
                    let f = Expr::Function(Rc::new(FuncBody { params: vec![], is_vararg: false, vararg_ty: None, generics: None, ret_ty: None, body: Block { stmts: vec![inner] }, attributes: vec![] }));
                    let nm = self.fresh();
                    body.push(Stmt::Local { names: vec![b(&nm)], values: vec![f], is_const: false });
                }
                body.push(Stmt::If { clauses: vec![(c, Block { stmts: vec![Stmt::Call(call("sink", vec![Expr::str("skip"), name(&i)])), Stmt::Continue] })], else_block: None });
                if self.r.bool() {
                    let c2 = Expr::bin(BinOp::Gt, name(&i), num(3.0));
                    body.push(Stmt::If { clauses: vec![(c2, Block { stmts: vec![Stmt::Break] })], else_block: None });
                }
                let n = 1 + self.r.below(2);
                for _ in 0..n {
                    if self.budget > 0 {
                        self.loop_body_stmt(&mut body, depth + 1, &i);
                    }
                }
                self.pop();
                self.in_loop -= 1;
                match self.r.below(3) {
                    0 => out.push(Stmt::NumFor { var: b(&i), start: num(1.0), limit: num(5.0), step: None, body: Block { stmts: body } }),
                    1 => {
                        // while with continue: increment first
                        out.push(Stmt::Local { names: vec![b(&i)], values: vec![num(0.0)], is_const: false });
                        self.declare(&i, T::Num, false);
                        let mut b2 = vec![Stmt::CompoundAssign { target: name(&i), op: BinOp::Add, value: num(1.0) }];
                        b2.extend(body);
                        out.push(Stmt::While { cond: Expr::bin(BinOp::Lt, name(&i), num(5.0)), body: Block { stmts: b2 } });
                    }
                    _ => {
                        // repeat ... until with continue; condition reads a body local declared before any continue
                        out.push(Stmt::Local { names: vec![b(&i)], values: vec![num(0.0)], is_const: false });
                        self.declare(&i, T::Num, false);
                        let j = format!("{}_seen", i);
                        let mut b2 = vec![Stmt::CompoundAssign { target: name(&i), op: BinOp::Add, value: num(1.0) }];
                        if !self.avoid("continue_in_repeat_with_body_local_in_until") {
                            b2.push(Stmt::Local { names: vec![b(&j)], values: vec![Expr::bin(BinOp::Ge, name(&i), num(5.0))], is_const: false });
                            b2.extend(body);
                            out.push(Stmt::Repeat { body: Block { stmts: b2 }, cond: name(&j) });
                        } else {
                            b2.extend(body);
                            out.push(Stmt::Repeat { body: Block { stmts: b2 }, cond: Expr::bin(BinOp::Ge, name(&i), num(5.0)) });
                        }
                    }
                }
            }
            4 | 5 => {
                self.idiom("if_expression");
                let n = if self.avoid("if_expression_two_elseif") { 1 + self.r.below(2) } else { 1 + self.r.below(3) };
                let mut clauses = vec![];
                for _ in 0..n {
                    let c = self.bool_expr(1);
                    let v = match self.r.below(7) {
                        0 => Expr::False,
                        1 => Expr::Nil,
                        2 => self.multi_call(1),
                        5 | 6 => {
                            // a nested if-expression whose first condition is constant and whose later branches are not
                            let first = if self.r.bool() { Expr::False } else { Expr::Nil };
                            let falsy = if self.r.bool() { Expr::False } else { Expr::Nil };
                            let c2 = self.bool_expr(1);
                            let (v2, e2) = if self.r.bool() { (falsy, self.any_simple(1)) } else { (self.any_simple(1), falsy) };
                            Expr::paren(Expr::IfExpr { clauses: vec![(first, num(1.0)), (c2, v2)], else_: Box::new(e2) })
                        }
                        _ => self.any_simple(1),
                    };
                    clauses.push((c, v));
                }
                let else_ = match self.r.below(4) {
                    0 => Expr::Nil,
                    1 => self.multi_call(1),
                    _ => self.any_simple(1),
                };
                let e = Expr::IfExpr { clauses, else_: Box::new(else_) };
                if self.r.bool() {
                    out.push(Stmt::Call(call("sink", vec![num(1.0), e])));
                } else {
                    out.push(Stmt::Call(call("sink", vec![e, num(2.0)])));
                }
            }
            6 => {
                self.idiom("interpolated");
                if self.r.chance(1, 5) {
                    // no value at all: the text is a plain literal (a `%` in it is not a format directive)
                    let text = *self.r.pick(&["100%", "%d items", "50%% of %s", "plain", "%", "a%%b"]);
                    out.push(Stmt::Call(call("sink", vec![Expr::Interp(vec![InterpPart::Str(text.as_bytes().to_vec())])])));
                    return;
                }
                let e = {
                    let mut parts = vec![InterpPart::Str(self.r.pick(&["v=", "v=", "%", "50%: ", "%s="]).as_bytes().to_vec())];
                    let hole = match self.r.below(6) {
                        0 => self.small_int(),
                        1 => self.str_expr(1),
                        2 => self.bool_expr(1),
                        3 => Expr::Nil,
                        4 if self.f.hostile => call("extt", vec![]),
                        _ => call("exts", vec![]),
                    };
                    parts.push(InterpPart::Expr(hole));
                    if self.r.bool() {
                        parts.push(InterpPart::Str(b";".to_vec()));
                        let h2 = self.small_int();
                        parts.push(InterpPart::Expr(h2));
                    }
                    Expr::Interp(parts)
                };
                out.push(Stmt::Call(call("sink", vec![e])));
            }
            7 => {
                self.idiom("floor_division");
                let l = match self.r.below(4) {
                    0 => num(-7.0),
                    1 => num(7.5),
                    2 => self.num_expr(1),
                    _ => num(0.0),
                };
                let r = *self.r.pick(&[2.0, -2.0, 0.5, 3.0]);
                out.push(Stmt::Call(call("sink", vec![Expr::bin(BinOp::IDiv, l, num(r))])));
                if depth < 4 && self.r.chance(1, 3) {
                    // ... and a later floor division in a scope where `math` is not the library (a parameter / a local)
                    let div = Expr::bin(BinOp::IDiv, name("n"), num(2.0));
                    if self.r.bool() {
                        let body = Block { stmts: vec![Stmt::Return(vec![div])] };
                        let f = Expr::Function(Rc::new(FuncBody { params: vec![b("math"), b("n")], is_vararg: false, vararg_ty: None, generics: None, ret_ty: None, body, attributes: vec![] }));
                        out.push(Stmt::Call(call("sink", vec![Expr::call(Expr::paren(f), vec![Expr::str("not the library"), num(9.0)])])));
                    } else {
                        let inner = vec![
                            Stmt::Local { names: vec![b("math"), b("n")], values: vec![Expr::Table(vec![]), num(9.0)], is_const: false },
                            Stmt::Call(call("sink", vec![div])),
                        ];
                        out.push(Stmt::Do(Block { stmts: inner }));
                    }
                }
            }
            8 if self.f.types => {
                self.idiom("typed_local");
                let nm = self.fresh();
                let v = self.num_expr(1);
                let ty = Ty { kind: "name", text: "number".into(), kids: vec![], exprs: vec![] };
                out.push(Stmt::Local { names: vec![Binding { name: nm.clone(), ty: Some(ty), span: (0, 0) }], values: vec![v], is_const: false });
                self.declare(&nm, T::Num, false);
            }
            _ => {
                self.idiom("luau_number");
                let lits = ["0b101", "1_000", "0xFF", "0x_f", "1e3", "0B1_1"];
                let raw = *self.r.pick(&lits);
                let v = crate::reflua::literal::decode_number(raw, crate::reflua::literal::Dialect::Luau).unwrap_or(0.0);
                out.push(Stmt::Call(call("sink", vec![Expr::Number(v, raw.to_string())])));
            }
        }
    }

    // ------------------------------------------------------------------ idioms: optional refactorings

    fn idiom_refactor(&mut self, out: &mut Vec<Stmt>, depth: u32) {
        let _ = depth;
        match self.r.below(8) {
            0 | 1 | 2 => {
                self.idiom("consecutive_locals");
                // runs of consecutive locals whose later initialisers read / capture / shadow earlier names
                let n = 2 + self.r.below(3);
                let mut prev: Vec<String> = vec![];
                for _ in 0..n {
                    let nm = if !prev.is_empty() && self.r.chance(1, 5) { prev[self.r.below(prev.len())].clone() } else { self.fresh() };
                    let kind = self.r.below(7);
                    let (vals, ty): (Vec<Expr>, T) = match kind {
                        0 if !prev.is_empty() => {
                            let p = prev[self.r.below(prev.len())].clone();
                            (vec![Expr::bin(BinOp::Add, Expr::bin(BinOp::Or, Expr::call(name("tonumber"), vec![name(&p)]), num(0.0)), num(1.0))], T::Num)
                        }
                        1 if !prev.is_empty() => {
                            // closure capturing an earlier local
                            let p = prev[self.r.below(prev.len())].clone();
                            let body = Block { stmts: vec![Stmt::Return(vec![Expr::bin(BinOp::Or, Expr::call(name("tonumber"), vec![name(&p)]), num(0.0))])] };
                            (vec![Expr::Function(Rc::new(FuncBody { params: vec![], is_vararg: false, vararg_ty: None, generics: None, ret_ty: None, body, attributes: vec![] }))], T::Fn0)
                        }
                        2 if !self.avoid("group_local_more_values_than_names") => (vec![call("ext", vec![Expr::str("m1")]), call("ext", vec![Expr::str("m2")])], T::Num),
                        3 => (vec![], T::Hostile),
                        4 => (vec![self.multi_call(1)], T::Hostile),
                        _ => (vec![self.num_expr(1)], T::Num),
                    };
                    out.push(Stmt::Local { names: vec![b(&nm)], values: vals, is_const: false });
                    if ty == T::Hostile {
                        self.undeclare(&nm);
                    } else {
                        self.declare(&nm, ty, false);
                    }
                    prev.push(nm);
                }
                let args: Vec<Expr> = prev.iter().map(|p| Expr::call(name("type"), vec![name(p)])).collect();
                out.push(Stmt::Call(call("sink", args)));
            }
            3 => self.func_def(out, depth),
            4 | 5 => {
                self.idiom("method_call_receiver");
                let nm = self.fresh();
                let e = self.rec_expr(0);
                out.push(Stmt::Local { names: vec![b(&nm)], values: vec![e], is_const: false });
                self.declare(&nm, T::Rec, false);
                let recv = match self.r.below(4) {
                    0 => name(&nm),
                    1 => Expr::paren(name(&nm)),
                    2 => {
                        // call receiver: evaluated once
                        let body = Block { stmts: vec![Stmt::Call(call("sink", vec![Expr::str("recv")])), Stmt::Return(vec![name(&nm)])] };
                        let f = Expr::Function(Rc::new(FuncBody { params: vec![], is_vararg: false, vararg_ty: None, generics: None, ret_ty: None, body, attributes: vec![] }));
                        Expr::call(Expr::paren(f), vec![])
                    }
                    _ => Expr::field(Expr::Table(vec![TableItem::Named("inner".into(), name(&nm))]).into_paren(), "inner"),
                };
                let a = self.num_expr(1);
                out.push(Stmt::Call(call("sink", vec![Expr::MethodCall { obj: Box::new(recv), name: "get".into(), args: vec![a], sugar: CallSugar::Parens, targs: None }])));
                if self.r.chance(1, 3) {
                    // receivers whose evaluation is observable: a field / index of a proxy whose `__index` logs and hands out
                    // the record, bare and parenthesised (must be read exactly once)
                    let h = self.fresh();
                    let body = Block { stmts: vec![Stmt::Call(call("sink", vec![Expr::str("idx"), name("px_key")])), Stmt::Return(vec![name(&nm)])] };
                    let f = Expr::Function(Rc::new(FuncBody { params: vec![b("px_self"), b("px_key")], is_vararg: false, vararg_ty: None, generics: None, ret_ty: None, body, attributes: vec![] }));
                    let proxy = call("setmetatable", vec![Expr::Table(vec![]), Expr::Table(vec![TableItem::Named("__index".into(), f)])]);
                    out.push(Stmt::Local { names: vec![b(&h)], values: vec![proxy], is_const: false });
                    self.undeclare(&h);
                    let k = self.any_key();
                    let inner = if self.r.bool() { Expr::field(name(&h), "fld") } else { Expr::index(name(&h), k) };
                    let recv = if self.r.chance(2, 3) { Expr::paren(inner) } else { inner };
                    let a = self.num_expr(1);
                    out.push(Stmt::Call(call("sink", vec![Expr::MethodCall { obj: Box::new(recv), name: "get".into(), args: vec![a], sugar: CallSugar::Parens, targs: None }])));
                }
            }
            6 => {
                self.idiom("sqrt");
                let a = self.num_expr(1);
                let e = match self.r.below(3) {
                    0 => Expr::call(Expr::field(name("math"), "sqrt"), vec![Expr::bin(BinOp::Mul, a.clone(), a)]),
                    1 => Expr::bin(BinOp::Pow, Expr::paren(Expr::bin(BinOp::Mul, a.clone(), a)), num(0.5)),
                    _ => Expr::call(Expr::field(name("math"), "sqrt"), vec![num(16.0)]),
                };
                out.push(Stmt::Call(call("sink", vec![e])));
            }
            _ => {
                self.idiom("shadowed_math");
                if self.f.luau && self.r.bool() {
                    // a floor division where `math` is the global, then one where `math` is a local / a parameter
                    out.push(Stmt::Call(call("sink", vec![Expr::bin(BinOp::IDiv, num(7.0), num(2.0))])));
                    let body = Block { stmts: vec![Stmt::Return(vec![Expr::bin(BinOp::IDiv, name("n"), num(2.0))])] };
                    let f = Expr::Function(Rc::new(FuncBody { params: vec![b("math"), b("n")], is_vararg: false, vararg_ty: None, generics: None, ret_ty: None, body, attributes: vec![] }));
                    out.push(Stmt::Call(call("sink", vec![Expr::call(Expr::paren(f), vec![Expr::str("not the library"), num(9.0)])])));
                    return;
                }
                // local math = { sqrt = function(x) return x + 1 end }
                if depth < 4 {
                    let body = Block { stmts: vec![Stmt::Return(vec![Expr::bin(BinOp::Add, name("x"), num(1.0))])] };
                    let f = Expr::Function(Rc::new(FuncBody { params: vec![b("x")], is_vararg: false, vararg_ty: None, generics: None, ret_ty: None, body, attributes: vec![] }));
                    let inner = vec![
                        Stmt::Local { names: vec![b("math")], values: vec![Expr::Table(vec![TableItem::Named("sqrt".into(), f.clone()), TableItem::Named("floor".into(), f)])], is_const: false },
                        Stmt::Call(call("sink", vec![Expr::call(Expr::field(name("math"), "sqrt"), vec![num(9.0)])])),
                    ];
                    out.push(Stmt::Do(Block { stmts: inner }));
                }
            }
        }
    }

    // ------------------------------------------------------------------ idioms: removal / injection

    fn idiom_removal(&mut self, out: &mut Vec<Stmt>, depth: u32) {
        let _ = depth;
        match self.r.below(10) {
            0 | 1 | 2 => {
                self.idiom("assert_call");
                if self.f.hostile && self.r.chance(1, 4) {
                    // arguments that are not calls but still have an effect (reading a field of an object whose __index
                    // logs), mixed with calls: the order of the effects is observable
                    let h = self.fresh();
                    out.push(Stmt::Local { names: vec![b(&h)], values: vec![call("extt", vec![])], is_const: false });
                    self.undeclare(&h);
                    let n = 2 + self.r.below(3);
                    let mut args: Vec<Expr> = vec![];
                    for i in 0..n {
                        args.push(match self.r.below(3) {
                            0 => call("ext", vec![Expr::str("c")]),
                            1 => Expr::field(name(&h), &format!("f{}", i)),
                            _ => Expr::index(name(&h), num(i as f64)),
                        });
                    }
                    let f = if self.r.bool() { name("assert") } else { Expr::field(name("debug"), if self.r.bool() { "profilebegin" } else { "profileend" }) };
                    out.push(Stmt::Call(Expr::call(f, args)));
                    return;
                }
                let n = self.r.below(4);
                let mut args: Vec<Expr> = vec![];
                for i in 0..n {
                    // first argument truthy so the original does not raise
                    let e = if i == 0 {
                        match self.r.below(4) {
                            0 => Expr::True,
                            1 => num(1.0),
                            2 => call("ext", vec![Expr::str("a0")]),
                            _ => Expr::str("ok"),
                        }
                    } else {
                        match self.r.below(4) {
                            0 => call("ext", vec![Expr::str("ai")]),
                            1 => self.str_lit(),
                            2 => self.multi_call(1),
                            _ => self.num_expr(1),
                        }
                    };
                    args.push(e);
                }
                if args.is_empty() {
                    // assert() raises in the original: keep it away
                    args.push(Expr::True);
                }
                let c = call("assert", args);
                match self.r.below(4) {
                    0 | 1 => out.push(Stmt::Call(c)),
                    2 => out.push(Stmt::Call(call("sink", vec![num(0.0), c]))),
                    _ => {
                        let nm = self.fresh();
                        out.push(Stmt::Local { names: vec![b(&nm)], values: vec![c], is_const: false });
                        self.undeclare(&nm);
                        out.push(Stmt::Call(call("sink", vec![name(&nm)])));
                    }
                }
            }
            3 if self.r.chance(1, 4) => {
                self.idiom("profiling_name_on_another_table");
                // `profilebegin` / `profileend` / `assert` reached through another (global) table are not the targeted functions
                let tname = *self.r.pick(&["Profiler", "Stats"]);
                let fname = *self.r.pick(&["profilebegin", "profileend", "assert"]);
                let body = Block { stmts: vec![Stmt::Call(call("sink", vec![Expr::str("own"), Expr::Vararg])), Stmt::Return(vec![Expr::str("own-result")])] };
                let f = Expr::Function(Rc::new(FuncBody { params: vec![], is_vararg: true, vararg_ty: None, generics: None, ret_ty: None, body, attributes: vec![] }));
                out.push(Stmt::Assign { targets: vec![name(tname)], values: vec![Expr::Table(vec![TableItem::Named(fname.into(), f)])] });
                let c = Expr::call(Expr::field(name(tname), fname), vec![call("ext", vec![Expr::str("arg")])]);
                if self.r.bool() {
                    out.push(Stmt::Call(c));
                } else {
                    out.push(Stmt::Call(call("sink", vec![c, num(0.0)])));
                }
            }
            3 if self.r.chance(1, 3) => {
                self.idiom("removed_call_with_table_argument");
                // table-call syntax: computed keys and values with effects have to be kept, in order
                let fexpr = if self.r.bool() { name("assert") } else { Expr::field(name("debug"), if self.r.bool() { "profilebegin" } else { "profileend" }) };
                let mut items = vec![];
                for i in 0..(1 + self.r.below(3)) {
                    items.push(match self.r.below(4) {
                        0 => TableItem::Keyed(call("ext", vec![Expr::str("key")]), Expr::True),
                        1 => TableItem::Keyed(call("ext", vec![Expr::str("key")]), call("ext", vec![Expr::str("value")])),
                        2 => TableItem::Named(format!("f{}", i), call("ext", vec![Expr::str("named")])),
                        _ => TableItem::Pos(call("ext", vec![Expr::str("pos")])),
                    });
                }
                let c = Expr::Call { func: Box::new(fexpr), args: vec![Expr::Table(items)], sugar: CallSugar::Table };
                if self.r.bool() {
                    out.push(Stmt::Call(c));
                } else {
                    out.push(Stmt::Call(call("sink", vec![c, num(0.0)])));
                }
            }
            3 if self.r.bool() => {
                self.idiom("profiling_call_in_expression");
                // the value of a profiling call is used (a no-op yields nil there); 0-3 arguments, some with side effects,
                // some of which return false / nothing / several values
                let f = if self.r.bool() { "profilebegin" } else { "profileend" };
                let n = self.r.below(4);
                let mut args = vec![];
                for _ in 0..n {
                    args.push(match self.r.below(7) {
                        0 => Expr::str("label"),
                        1 => call("exts", vec![Expr::str("lbl")]),
                        2 => call("extb", vec![]),
                        3 => call("ext0", vec![]),
                        4 => call("ext", vec![Expr::str("n")]),
                        5 => self.multi_call(1),
                        _ => Expr::False,
                    });
                }
                let c = Expr::call(Expr::field(name("debug"), f), args);
                match self.r.below(5) {
                    0 => {
                        let nm = self.fresh();
                        out.push(Stmt::Local { names: vec![b(&nm)], values: vec![c], is_const: false });
                        self.undeclare(&nm);
                        out.push(Stmt::Call(call("sink", vec![name(&nm)])));
                    }
                    1 => out.push(Stmt::Call(call("sink", vec![c, num(0.0)]))),
                    2 => out.push(Stmt::Call(call("sink", vec![Expr::paren(c)]))),
                    3 => out.push(Stmt::If { clauses: vec![(c, Block { stmts: vec![Stmt::Call(call("sink", vec![Expr::str("truthy")]))] })], else_block: Some(Block { stmts: vec![Stmt::Call(call("sink", vec![Expr::str("falsy")]))] }) }),
                    _ => out.push(Stmt::Call(call("sink", vec![Expr::bin(BinOp::Eq, c, Expr::Nil), Expr::str("is-nil")]))),
                }
            }
            3 | 4 => {
                self.idiom("profiling_call");
                let f = if self.r.bool() { "profilebegin" } else { "profileend" };
                let args = match self.r.below(3) {
                    0 => vec![Expr::str("label")],
                    1 => vec![call("exts", vec![Expr::str("lbl")])],
                    _ => vec![],
                };
                out.push(Stmt::Call(Expr::call(Expr::field(name("debug"), f), args)));
            }
            5 => {
                self.idiom("shadowed_assert");
                if depth < 4 {
                    // local assert = function(...) sink("local assert", ...) return ... end  used in a nested block
                    let body = Block { stmts: vec![Stmt::Call(call("sink", vec![Expr::str("local-assert"), Expr::Vararg])), Stmt::Return(vec![Expr::Vararg])] };
                    let f = Expr::Function(Rc::new(FuncBody { params: vec![], is_vararg: true, vararg_ty: None, generics: None, ret_ty: None, body, attributes: vec![] }));
                    let which = self.r.below(3);
                    let inner = match which {
                        0 => vec![Stmt::Local { names: vec![b("assert")], values: vec![f], is_const: false }, Stmt::Call(call("assert", vec![Expr::True, call("ext", vec![Expr::str("sa")])]))],
                        1 => vec![
                            Stmt::Local { names: vec![b("debug")], values: vec![Expr::Table(vec![TableItem::Named("profilebegin".into(), f)])], is_const: false },
                            Stmt::Call(Expr::call(Expr::field(name("debug"), "profilebegin"), vec![Expr::str("x")])),
                        ],
                        _ => vec![
                            Stmt::Local { names: vec![b("tbl")], values: vec![Expr::Table(vec![TableItem::Named("assert".into(), f)])], is_const: false },
                            Stmt::Call(Expr::call(Expr::field(name("tbl"), "assert"), vec![Expr::True])),
                            Stmt::Call(Expr::MethodCall { obj: Box::new(name("tbl")), name: "assert".into(), args: vec![num(1.0)], sugar: CallSugar::Parens, targs: None }),
                        ],
                    };
                    out.push(Stmt::Do(Block { stmts: inner }));
                }
            }
            _ => {
                if let Some(g) = self.f.inject_name.clone() {
                    self.idiom("inject_read");
                    match self.r.below(7) {
                        0 | 1 => out.push(Stmt::Call(call("sink", vec![name(&g)]))),
                        2 => out.push(Stmt::Call(call("sink", vec![Expr::field(name("_G"), &g), Expr::index(name("_G"), Expr::str(&g))]))),
                        3 => out.push(Stmt::Call(call("sink", vec![Expr::call(name("type"), vec![name(&g)])]))),
                        4 if depth < 4 && !self.avoid("inject_shadowed_prefix") => {
                            // shadowed by a local / parameter: must be left alone
                            let inner = vec![
                                Stmt::Local { names: vec![b(&g)], values: vec![Expr::Table(vec![TableItem::Named("f".into(), num(5.0))])], is_const: false },
                                Stmt::Call(call("sink", vec![name(&g), Expr::field(name(&g), "f"), Expr::index(name(&g), Expr::str("f"))])),
                            ];
                            out.push(Stmt::Do(Block { stmts: inner }));
                        }
                        4 if depth < 4 => {
                            let inner = vec![Stmt::Local { names: vec![b(&g)], values: vec![num(5.0)], is_const: false }, Stmt::Call(call("sink", vec![name(&g)]))];
                            out.push(Stmt::Do(Block { stmts: inner }));
                        }
                        5 if depth < 4 && self.r.bool() => {
                            // `_G` is a local table here: its fields are not the global
                            let inner = vec![
                                Stmt::Local { names: vec![b("_G")], values: vec![Expr::Table(vec![TableItem::Named(g.clone(), Expr::str("field of a local _G"))])], is_const: false },
                                Stmt::Call(call("sink", vec![Expr::field(name("_G"), &g), Expr::index(name("_G"), Expr::str(&g))])),
                            ];
                            out.push(Stmt::Do(Block { stmts: inner }));
                        }
                        5 if depth < 4 && self.r.bool() => {
                            // a local named like the global does not hide `_G.NAME` / `_G["NAME"]`
                            let inner = vec![
                                Stmt::Local { names: vec![b(&g)], values: vec![Expr::str("local of that name")], is_const: false },
                                Stmt::Call(call("sink", vec![Expr::field(name("_G"), &g), Expr::index(name("_G"), Expr::str(&g)), name(&g)])),
                            ];
                            out.push(Stmt::Do(Block { stmts: inner }));
                        }
                        5 => {
                            // field of another table with the same name
                            out.push(Stmt::Call(call("sink", vec![Expr::field(Expr::Table(vec![TableItem::Named(g.clone(), num(9.0))]).into_paren(), &g)])));
                        }
                        _ => {
                            // as a parameter name
                            let body = Block { stmts: vec![Stmt::Return(vec![name(&g)])] };
                            let f = Expr::Function(Rc::new(FuncBody { params: vec![b(&g)], is_vararg: false, vararg_ty: None, generics: None, ret_ty: None, body, attributes: vec![] }));
                            out.push(Stmt::Call(call("sink", vec![Expr::call(Expr::paren(f), vec![num(77.0)])])));
                        }
                    }
                } else {
                    out.push(self.sink_stmt(depth));
                }
            }
        }
    }

    // ------------------------------------------------------------------ whole program

    pub fn program(&mut self) -> Block {
        let mut stmts = vec![];
        if self.f.scope_stress && self.r.chance(1, 6) {
            // many simultaneously live locals
            let n = 60 + self.r.below(200);
            for i in 0..n {
                let nm = format!("L{}", i);
                stmts.push(Stmt::Local { names: vec![b(&nm)], values: vec![num(i as f64)], is_const: false });
                self.declare(&nm, T::Num, false);
            }
        }
        if self.f.scope_stress {
            // globals named like the first names a renamer hands out (read and written while no local shadows them)
            for g in ["a", "b", "c", "aa"] {
                if self.r.chance(1, 3) {
                    // ... and the same, but the first thing the file does with the name is to declare and read a local /
                    // parameter / loop variable called like that in a scope that is closed before the global is used
                    let k = num(self.r.below(9) as f64);
                    let inner = match self.r.below(3) {
                        0 => Stmt::Do(Block { stmts: vec![Stmt::Local { names: vec![b(g)], values: vec![k], is_const: false }, Stmt::Call(call("sink", vec![name(g)]))] }),
                        1 => Stmt::NumFor { var: b(g), start: num(1.0), limit: num(1.0), step: None, body: Block { stmts: vec![Stmt::Call(call("sink", vec![name(g)]))] } },
                        _ => {
                            let body = Block { stmts: vec![Stmt::Return(vec![name(g)])] };
                            let f = Expr::Function(Rc::new(FuncBody { params: vec![b(g)], is_vararg: false, vararg_ty: None, generics: None, ret_ty: None, body, attributes: vec![] }));
                            Stmt::Call(call("sink", vec![Expr::call(Expr::paren(f), vec![k])]))
                        }
                    };
                    stmts.push(inner);
                    let tmp = self.fresh();
                    stmts.push(Stmt::Local { names: vec![b(&tmp)], values: vec![num(2.0)], is_const: false });
                    self.declare(&tmp, T::Num, false);
                    stmts.push(Stmt::Assign { targets: vec![name(g)], values: vec![name(&tmp)] });
                    stmts.push(Stmt::Call(call("sink", vec![name(g), name(&tmp)])));
                    self.declare(g, T::Num, true);
                    continue;
                }
                if self.r.bool() {
                    stmts.push(Stmt::Assign { targets: vec![name(g)], values: vec![num(self.r.below(9) as f64)] });
                    stmts.push(Stmt::Call(call("sink", vec![name(g)])));
                    self.declare(g, T::Num, true);
                }
            }
        }
        while self.budget > 0 {
            self.stmt(&mut stmts, 0);
        }
        // observe every live variable
        let mut rets = vec![];
        for v in self.all_visible() {
            if v.ty == T::Hostile && v.global {
                rets.push(name(&v.name));
                continue;
            }
            match v.ty {
                T::Num | T::Str | T::Bool | T::Arr => rets.push(name(&v.name)),
                T::Rec => {
                    rets.push(Expr::field(name(&v.name), "a"));
                    rets.push(Expr::field(name(&v.name), "b"));
                }
                T::Fn0 => rets.push(Expr::paren(Expr::call(name(&v.name), vec![]))),
                T::Fn1 => rets.push(Expr::paren(Expr::call(name(&v.name), vec![num(2.0)]))),
                T::FnVar => rets.push(Expr::paren(Expr::call(name(&v.name), vec![num(1.0), num(2.0)]))),
                T::Hostile => {}
            }
            if rets.len() > 40 {
                break;
            }
        }
        stmts.push(Stmt::Return(rets));
        Block { stmts }
    }
}

trait IntoParen {
    fn into_paren(self) -> Expr;
}
impl IntoParen for Expr {
    fn into_paren(self) -> Expr {
        Expr::Paren(Box::new(self))
    }
}

fn assigns_name(s: &Stmt, n: &str) -> bool {
    match s {
        Stmt::Assign { targets, .. } => targets.iter().any(|t| matches!(t, Expr::Name(x) if x == n)),
        Stmt::CompoundAssign { target, .. } => matches!(target, Expr::Name(x) if x == n),
        Stmt::Local { names, .. } => names.iter().any(|b| b.name == n),
        Stmt::LocalFunction { name, .. } => name == n,
        Stmt::Function { name, .. } => name.base == n && name.fields.is_empty() && name.method.is_none(),
        Stmt::Do(b) => b.stmts.iter().any(|s| assigns_name(s, n)),
        Stmt::While { body, .. } | Stmt::Repeat { body, .. } | Stmt::NumFor { body, .. } | Stmt::GenFor { body, .. } => body.stmts.iter().any(|s| assigns_name(s, n)),
        Stmt::If { clauses, else_block } => clauses.iter().any(|(_, b)| b.stmts.iter().any(|s| assigns_name(s, n))) || else_block.as_ref().map(|b| b.stmts.iter().any(|s| assigns_name(s, n))).unwrap_or(false),
        _ => false,
    }
}

pub fn generate(r: &mut Rng, f: Feat) -> (Block, std::collections::BTreeMap<&'static str, u32>) {
    let mut g = Gen::new(r, f);
    let b = g.program();
    (b, g.idiom_counts)
}
