pub mod layout;
pub mod prog;
pub mod shrink;
