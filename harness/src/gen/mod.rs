pub mod prog;
pub mod shrink;
