//! Trivia-fuzzing layouts: prints a token list with whitespace / newlines / comments in every gap,
//! or re-lays an existing source text by injecting trivia between its tokens.

use crate::reflua::lexer::{lex, Tk};
use crate::reflua::print::{needs_space, PTok};
use crate::rng::Rng;

#[derive(Clone, Debug)]
pub struct LayoutOpts {
    /// 0 = LF, 1 = CRLF, 2 = mixed
    pub newline: u8,
    /// probability (percent) that a gap receives a comment
    pub comment_pct: u32,
    /// probability (percent) that a gap receives a line break
    pub newline_pct: u32,
    pub trailing_newline: bool,
    pub tabs: bool,
    /// one statement per line as the baseline (uses PTok::stmt_start)
    pub statement_lines: bool,
    /// probability (percent) that a statement starting a line is preceded by a block of 3-5 line comments on their own
    /// lines (a documentation block), some separated by a blank line
    pub doc_block_pct: u32,
}

impl LayoutOpts {
    pub fn random(r: &mut Rng) -> LayoutOpts {
        LayoutOpts { newline: r.below(3) as u8, comment_pct: *r.pick(&[0, 5, 15, 40]), newline_pct: *r.pick(&[0, 5, 20]), trailing_newline: r.bool(), tabs: r.bool(), statement_lines: r.chance(3, 4), doc_block_pct: 0 }
    }
    pub fn plain() -> LayoutOpts {
        LayoutOpts { newline: 0, comment_pct: 0, newline_pct: 0, trailing_newline: true, tabs: false, statement_lines: true, doc_block_pct: 0 }
    }
}

pub const COMMENT_TEXTS: [&str; 14] = ["", " c", " todo: x", "- dash", " [[ not long", " ]] ", "é ü", " a=b ", " 'q\" ", "\t", " ]=] ", " --", " end", " {"];

fn nl(r: &mut Rng, o: &LayoutOpts) -> &'static str {
    match o.newline {
        0 => "\n",
        1 => "\r\n",
        _ => {
            if r.bool() {
                "\n"
            } else {
                "\r\n"
            }
        }
    }
}

/// trivia for one gap; `must_space`: the two tokens need separation
fn gap(r: &mut Rng, o: &LayoutOpts, must_space: bool, want_newline: bool, had_comment: &mut bool) -> String {
    let mut s = String::new();
    let parts = 1 + r.below(2);
    if want_newline {
        s.push_str(nl(r, o));
    }
    for _ in 0..parts {
        let roll = r.below(100) as u32;
        if roll < o.comment_pct {
            *had_comment = true;
            match r.below(3) {
                0 => {
                    // line comment (must not start a long bracket): text never starts with '['
                    s.push_str(" --");
                    let t = *r.pick(&COMMENT_TEXTS);
                    if t.starts_with('[') {
                        s.push(' ');
                    }
                    s.push_str(t);
                    s.push_str(&format!("~{}", r.below(100000)));
                    s.push_str(nl(r, o));
                }
                1 => {
                    let t = *r.pick(&COMMENT_TEXTS);
                    let level = if t.contains("]]") { 2 } else { r.below(2) };
                    let eq = "=".repeat(level);
                    let t2 = if level == 2 && t.contains("]==]") { " x " } else { t };
                    s.push_str(&format!("--[{}[{}~{}]{}]", eq, t2, r.below(100000), eq));
                }
                _ => {
                    let t = *r.pick(&COMMENT_TEXTS);
                    let eq = "=".repeat(1 + r.below(2));
                    let t2 = if t.contains("]=]") { " y " } else { t };
                    let serial = r.below(100000);
                    s.push_str(&format!("--[{}[{}~{}{}]{}]", eq, t2, serial, nl(r, o), eq));
                }
            }
        } else if roll < o.comment_pct + o.newline_pct {
            s.push_str(nl(r, o));
        } else {
            match r.below(6) {
                0 => {}
                1 | 2 => s.push(' '),
                3 => s.push_str("  "),
                4 => {
                    if o.tabs {
                        s.push('\t')
                    } else {
                        s.push(' ')
                    }
                }
                _ => s.push(' '),
            }
        }
    }
    if must_space && s.is_empty() {
        s.push(' ');
    }
    s
}

/// Lay out a token list.  Returns the text and, per gap, (production tag of the token after the
/// gap, text of that token if it is punctuation/keyword, whether a comment was placed).
pub fn layout_tokens(toks: &[PTok], r: &mut Rng, o: &LayoutOpts) -> (String, Vec<(String, bool)>) {
    let mut s = String::new();
    let mut gaps = vec![];
    // leading trivia before the first token
    let mut hc = false;
    if r.chance(1, 4) {
        s.push_str(&gap(r, o, false, false, &mut hc));
        if !toks.is_empty() {
            gaps.push((format!("{}:<first>", toks[0].tag), hc));
        }
    }
    for (i, t) in toks.iter().enumerate() {
        if i > 0 {
            let prev = &toks[i - 1];
            let must = needs_space(&prev.text, &t.text) || glue_risk(&prev.text, &t.text);
            let mut hc = false;
            let want_nl = o.statement_lines && t.stmt_start;
            // a comment directly after `-` triggers a known defect of remove_spaces (`- --c` -> `---c`): keep it out of the
            // general workload (a stored witness exercises it)
            // line comments inside type annotations trigger a known defect (the line break moves): long comments only there
            let in_type = matches!(t.tag, "type" | "annot" | "generics" | "typedecl" | "cast" | "instantiation" | "instantiation_inner") || matches!(prev.tag, "type" | "annot" | "generics" | "cast" | "instantiation" | "instantiation_inner");
            let g = if in_type {
                let mut g = gap(r, o, must, want_nl, &mut hc);
                if g.contains("--") && lex(&g, true).map(|l| l.tokens[0].leading.iter().any(|t| t.kind == crate::reflua::lexer::TriviaKind::LineComment)).unwrap_or(true) {
                    hc = false;
                    g = if must { " ".to_string() } else { String::new() };
                }
                g
            } else if prev.text == "-" { let o2 = LayoutOpts { comment_pct: 0, ..o.clone() }; gap(r, &o2, must, want_nl, &mut hc) } else { gap(r, o, must, want_nl, &mut hc) };
            s.push_str(&g);
            if want_nl && o.doc_block_pct > 0 && (r.below(100) as u32) < o.doc_block_pct && !in_type && prev.text != "-" {
                if !s.ends_with('\n') {
                    s.push_str(nl(r, o));
                }
                let k = 3 + r.below(3);
                for j in 0..k {
                    s.push_str(&format!("-- doc line {} ~{}", j, r.below(100000)));
                    s.push_str(nl(r, o));
                    if r.chance(1, 4) {
                        s.push_str(nl(r, o));
                    }
                }
                hc = true;
            }
            let key = if t.text.chars().all(|c| c.is_ascii_alphanumeric() || c == '_') && !crate::reflua::lexer::is_keyword(&t.text) { format!("{}:<word>", t.tag) } else if t.text.len() > 6 { format!("{}:<lit>", t.tag) } else { format!("{}:{}", t.tag, t.text) };
            gaps.push((key, hc));
        }
        s.push_str(&t.text);
    }
    // trailing trivia
    let mut hc = false;
    if r.chance(1, 3) {
        let g = gap(r, o, false, false, &mut hc);
        s.push_str(&g);
        gaps.push(("<eof>".into(), hc));
    }
    if o.trailing_newline && !s.ends_with('\n') {
        s.push_str(nl(r, o));
    } else if !o.trailing_newline && r.chance(1, 3) {
        // file ending in a line comment without newline
        s.push_str(" -- eof comment");
        gaps.push(("<eof-comment-no-newline>".into(), true));
    }
    (s, gaps)
}

/// extra conservative separation for token pairs whose concatenation would lex differently
fn glue_risk(a: &str, b: &str) -> bool {
    let la = a.as_bytes().last().copied().unwrap_or(b' ');
    let fb = b.as_bytes().first().copied().unwrap_or(b' ');
    // `[` followed by a long string `[[`, `-` before a comment-looking `-`, number before `..`
    (la == b'[' && fb == b'[') || (la == b'-' && fb == b'-') || (la.is_ascii_digit() && fb == b'.') || (la == b'.' && fb.is_ascii_digit()) || (la == b'.' && fb == b'.')
}

/// Verify that `text` lexes to exactly the intended code tokens.
pub fn tokens_preserved(text: &str, toks: &[PTok]) -> bool {
    match lex(text, true) {
        Ok(lx) => {
            let got = lx.code_tokens();
            got.len() == toks.len() && got.iter().zip(toks.iter()).all(|(a, b)| *a == b.text)
        }
        Err(_) => false,
    }
}

/// Re-lay an existing source: keep every token and every existing trivia, inject extra trivia
/// between tokens.  Returns None when the result would not lex to the same code tokens.
pub fn inject_trivia(src: &str, r: &mut Rng, o: &LayoutOpts) -> Option<String> {
    let lx = lex(src, true).ok()?;
    let mut out = String::new();
    let mut depth_interp = 0i32;
    for t in lx.tokens.iter() {
        // existing trivia
        for tr in &t.leading {
            out.push_str(lx.trivia_text(tr));
        }
        // extra trivia before this token (not before the very first token when a shebang is present)
        let inside_interp = depth_interp > 0;
        let mut hc = false;
        if t.kind != Tk::Eof && !inside_interp && r.chance(1, 3) && !out.ends_with('-') {
            // a line comment may not be injected when the previous trivia ended in a line comment without newline: we add
            // only after a newline or a token, both fine
            let g = gap(r, o, false, false, &mut hc);
            // never start the injected gap directly after `--...` line comment text without newline
            if !out.ends_with('\n') && last_line_is_comment(&out) {
                out.push('\n');
            }
            out.push_str(&g);
        }
        match t.kind {
            Tk::InterpBegin => depth_interp += 1,
            Tk::InterpEnd => depth_interp -= 1,
            _ => {}
        }
        out.push_str(lx.text(t));
    }
    let want: Vec<&str> = lx.code_tokens();
    let got = lex(&out, true).ok()?;
    if got.code_tokens() == want {
        Some(out)
    } else {
        None
    }
}

fn last_line_is_comment(s: &str) -> bool {
    let line = s.rsplit('\n').next().unwrap_or("");
    // crude: a `--` that is not inside a long comment closed on this line
    if let Some(i) = line.rfind("--") {
        let rest = &line[i..];
        !(rest.starts_with("--[") && rest.contains(']'))
    } else {
        false
    }
}
