//! AST-level delta debugging of Lua sources (DESIGN.md §4): candidates that are simpler than the
//! given program.  The monitor keeps a candidate only if it still fails with the same signature.

use crate::reflua::ast::*;
use crate::reflua::parser::{parse_block, Mode};
use crate::reflua::print::print_block;
use std::rc::Rc;

/// lazily enumerated single-step simplifications of a source text (edits nearest to the end of the program first)
pub struct SrcShrinker {
    block: Block,
    n: usize,
    canonical: String,
}

impl SrcShrinker {
    pub fn new(src: &str) -> Option<SrcShrinker> {
        let block = parse_block(src, Mode::Luau).ok()?;
        let mut n = 0usize;
        count_block(&block, &mut n);
        let canonical = print_block(&block);
        Some(SrcShrinker { block, n, canonical })
    }
    pub fn count(&self) -> usize {
        self.n
    }
    /// the i-th candidate (i = 0 is the edit closest to the end of the program); None when the edit is a no-op
    pub fn candidate(&self, i: usize) -> Option<String> {
        if i >= self.n {
            return None;
        }
        let idx = self.n - 1 - i;
        let mut counter = 0usize;
        let mut done = false;
        let b2 = edit_block(&self.block, idx, &mut counter, &mut done);
        if !done {
            return None;
        }
        let text = print_block(&b2);
        if text == self.canonical {
            None
        } else {
            Some(text)
        }
    }
}

/// Layout-preserving shrinking: blank out aligned ranges of tokens (their text becomes spaces, line breaks stay), from
/// halves of the file down to single tokens.  Only candidates the reference parser still accepts are produced.
pub struct TokenBlanker {
    src: String,
    /// (start, end) byte range of every code token
    toks: Vec<(usize, usize)>,
    /// (first token, one-past-last token) of every candidate range
    ranges: Vec<(usize, usize)>,
}

impl TokenBlanker {
    pub fn new(src: &str) -> Option<TokenBlanker> {
        let lx = crate::reflua::lexer::lex(src, true).ok()?;
        let toks: Vec<(usize, usize)> = lx.tokens.iter().filter(|t| t.kind != crate::reflua::lexer::Tk::Eof).map(|t| (t.start, t.end)).collect();
        let n = toks.len();
        let mut ranges = vec![];
        let mut size = n / 2;
        while size >= 1 {
            let mut i = 0;
            while i < n {
                ranges.push((i, (i + size).min(n)));
                i += size;
            }
            if size == 1 {
                break;
            }
            size = (size + 1) / 2;
            if ranges.len() > 6000 {
                break;
            }
        }
        Some(TokenBlanker { src: src.to_string(), toks, ranges })
    }
    pub fn count(&self) -> usize {
        self.ranges.len()
    }
    pub fn candidate(&self, i: usize) -> Option<String> {
        let (a, b) = *self.ranges.get(i)?;
        if a >= b {
            return None;
        }
        let start = self.toks[a].0;
        let end = self.toks[b - 1].1;
        let mut out = String::with_capacity(self.src.len());
        out.push_str(&self.src[..start]);
        let mut any = false;
        for c in self.src[start..end].chars() {
            if c == '\n' || c == '\r' {
                out.push(c);
            } else {
                if !c.is_whitespace() {
                    any = true;
                }
                out.push(' ');
            }
        }
        out.push_str(&self.src[end..]);
        if !any {
            return None;
        }
        if parse_block(&out, Mode::Luau).is_err() {
            return None;
        }
        Some(out)
    }
}

/// all single-step simplifications of `src` (bounded); empty when `src` does not parse
pub fn shrink_source(src: &str, cap: usize) -> Vec<String> {
    let Ok(block) = parse_block(src, Mode::Luau) else { return line_shrinks(src, cap) };
    let mut out: Vec<String> = vec![];
    let canonical = print_block(&block);
    // number of edit positions
    let mut n = 0usize;
    count_block(&block, &mut n);
    // big steps first: delete statements (largest first is approximated by order), then unwrap, then exprs
    let mut idx = 0usize;
    while idx < n && out.len() < cap * 8 {
        let mut counter = 0usize;
        let mut done = false;
        let b2 = edit_block(&block, idx, &mut counter, &mut done);
        if done {
            let text = print_block(&b2);
            if text != canonical && text != src && !out.contains(&text) {
                out.push(text);
            }
        }
        idx += 1;
    }
    // later statements have no dependents: try edits from the end of the program first
    out.reverse();
    out.truncate(cap * 8);
    if canonical.len() < src.len() && !out.contains(&canonical) {
        out.push(canonical);
    }
    out
}

fn line_shrinks(src: &str, cap: usize) -> Vec<String> {
    // unparsable input: remove one line / halve
    let lines: Vec<&str> = src.split_inclusive('\n').collect();
    let mut out = vec![];
    if src.len() > 1 {
        let mid = src.len() / 2;
        if src.is_char_boundary(mid) {
            out.push(src[..mid].to_string());
            out.push(src[mid..].to_string());
        }
    }
    for i in 0..lines.len().min(cap) {
        let mut v = lines.clone();
        v.remove(i);
        out.push(v.concat());
    }
    out
}

// Edit positions are numbered in traversal order.  Each statement contributes several positions:
//   delete statement; unwrap statement (replace by its inner block(s)); simplify parts.
// Each expression contributes: replace by each child; replace by `nil`/`1`/`true`.

fn count_block(b: &Block, n: &mut usize) {
    for s in &b.stmts {
        *n += 2; // delete, unwrap
        count_stmt(s, n);
    }
}

fn count_exprs(es: &[Expr], n: &mut usize) {
    *n += 1; // drop last element of the list
    for e in es {
        count_expr(e, n);
    }
}

fn count_stmt(s: &Stmt, n: &mut usize) {
    match s {
        Stmt::Local { names, values, .. } => {
            *n += 1; // drop last name
            let _ = names;
            count_exprs(values, n);
        }
        Stmt::Assign { targets, values } => {
            count_exprs(targets, n);
            count_exprs(values, n);
        }
        Stmt::CompoundAssign { target, value, .. } => {
            count_expr(target, n);
            count_expr(value, n);
        }
        Stmt::Call(e) => count_expr(e, n),
        Stmt::Do(b) => count_block(b, n),
        Stmt::While { cond, body } => {
            count_expr(cond, n);
            count_block(body, n);
        }
        Stmt::Repeat { body, cond } => {
            count_block(body, n);
            count_expr(cond, n);
        }
        Stmt::If { clauses, else_block } => {
            *n += 1; // drop last clause / else
            for (c, b) in clauses {
                count_expr(c, n);
                count_block(b, n);
            }
            if let Some(b) = else_block {
                count_block(b, n);
            }
        }
        Stmt::NumFor { start, limit, step, body, .. } => {
            count_expr(start, n);
            count_expr(limit, n);
            if let Some(s) = step {
                count_expr(s, n);
            }
            count_block(body, n);
        }
        Stmt::GenFor { exprs, body, .. } => {
            count_exprs(exprs, n);
            count_block(body, n);
        }
        Stmt::Function { func, .. } | Stmt::LocalFunction { func, .. } | Stmt::TypeFunction { func, .. } => count_block(&func.body, n),
        Stmt::Return(es) => count_exprs(es, n),
        Stmt::Break | Stmt::Continue | Stmt::TypeDecl { .. } => {}
    }
}

fn count_expr(e: &Expr, n: &mut usize) {
    *n += 2; // replace by child 0 / child 1 (or literal)
    match e {
        Expr::Function(f) => count_block(&f.body, n),
        Expr::Index(a, b) => {
            count_expr(a, n);
            count_expr(b, n);
        }
        Expr::Field(a, _) => count_expr(a, n),
        Expr::Call { func, args, .. } => {
            count_expr(func, n);
            count_exprs(args, n);
        }
        Expr::MethodCall { obj, args, .. } => {
            count_expr(obj, n);
            count_exprs(args, n);
        }
        Expr::Binary(_, a, b) => {
            count_expr(a, n);
            count_expr(b, n);
        }
        Expr::Unary(_, a) | Expr::Paren(a) | Expr::Cast(a, _) | Expr::TypeInstantiation(a, _) => count_expr(a, n),
        Expr::Table(items) => {
            *n += 1; // drop last item
            for it in items {
                match it {
                    TableItem::Pos(v) | TableItem::Named(_, v) => count_expr(v, n),
                    TableItem::Keyed(k, v) => {
                        count_expr(k, n);
                        count_expr(v, n);
                    }
                }
            }
        }
        Expr::IfExpr { clauses, else_ } => {
            for (c, v) in clauses {
                count_expr(c, n);
                count_expr(v, n);
            }
            count_expr(else_, n);
        }
        Expr::Interp(parts) => {
            for p in parts {
                if let InterpPart::Expr(e) = p {
                    count_expr(e, n);
                }
            }
        }
        _ => {}
    }
}

struct Ed<'a> {
    target: usize,
    counter: &'a mut usize,
    done: &'a mut bool,
}

impl<'a> Ed<'a> {
    fn hit(&mut self) -> bool {
        let h = *self.counter == self.target && !*self.done;
        *self.counter += 1;
        if h {
            *self.done = true;
        }
        h
    }
}

fn edit_block(b: &Block, target: usize, counter: &mut usize, done: &mut bool) -> Block {
    let mut ed = Ed { target, counter, done };
    ed_block(b, &mut ed)
}

fn ed_block(b: &Block, ed: &mut Ed) -> Block {
    let mut out = vec![];
    for s in &b.stmts {
        if ed.hit() {
            // delete
            let mut n = 0;
            count_stmt(s, &mut n);
            *ed.counter += 1 + n;
            continue;
        }
        if ed.hit() {
            // unwrap
            let mut n = 0;
            count_stmt(s, &mut n);
            *ed.counter += n;
            match s {
                Stmt::Do(b) => out.extend(b.stmts.iter().cloned()),
                Stmt::While { body, .. } | Stmt::Repeat { body, .. } | Stmt::NumFor { body, .. } | Stmt::GenFor { body, .. } => out.extend(body.stmts.iter().filter(|s| !matches!(s, Stmt::Break | Stmt::Continue)).cloned()),
                Stmt::If { clauses, .. } => out.extend(clauses[0].1.stmts.iter().cloned()),
                Stmt::Function { func, .. } | Stmt::LocalFunction { func, .. } => out.extend(func.body.stmts.iter().filter(|s| !matches!(s, Stmt::Return(_))).cloned()),
                Stmt::Local { values, .. } | Stmt::Assign { values, .. } => {
                    // keep only the calls of the right-hand side
                    for v in values {
                        if matches!(v, Expr::Call { .. } | Expr::MethodCall { .. }) {
                            out.push(Stmt::Call(v.clone()));
                        }
                    }
                }
                other => out.push(other.clone()),
            }
            continue;
        }
        out.push(ed_stmt(s, ed));
    }
    // a block must not have statements after return/break/continue
    if let Some(pos) = out.iter().position(|s| matches!(s, Stmt::Return(_) | Stmt::Break | Stmt::Continue)) {
        out.truncate(pos + 1);
    }
    Block { stmts: out }
}

fn ed_exprs(es: &[Expr], ed: &mut Ed) -> Vec<Expr> {
    let drop_last = ed.hit();
    let mut out: Vec<Expr> = es.iter().map(|e| ed_expr(e, ed)).collect();
    if drop_last && !out.is_empty() {
        out.pop();
    }
    out
}

fn ed_func(f: &Rc<FuncBody>, ed: &mut Ed) -> Rc<FuncBody> {
    let mut nf = (**f).clone();
    nf.body = ed_block(&f.body, ed);
    Rc::new(nf)
}

fn ed_stmt(s: &Stmt, ed: &mut Ed) -> Stmt {
    match s {
        Stmt::Local { names, values, is_const } => {
            let drop_name = ed.hit();
            let mut names = names.clone();
            if drop_name && names.len() > 1 {
                names.pop();
            }
            let values = ed_exprs(values, ed);
            Stmt::Local { names, values, is_const: *is_const }
        }
        Stmt::Assign { targets, values } => {
            let t = ed_exprs(targets, ed);
            let v = ed_exprs(values, ed);
            let t: Vec<Expr> = t.into_iter().filter(|e| matches!(e, Expr::Name(_) | Expr::Index(..) | Expr::Field(..))).collect();
            if t.is_empty() || v.is_empty() {
                return Stmt::Do(Block::default());
            }
            Stmt::Assign { targets: t, values: v }
        }
        Stmt::CompoundAssign { target, op, value } => {
            let t = ed_expr(target, ed);
            let v = ed_expr(value, ed);
            if !matches!(t, Expr::Name(_) | Expr::Index(..) | Expr::Field(..)) {
                return Stmt::Do(Block::default());
            }
            Stmt::CompoundAssign { target: t, op: *op, value: v }
        }
        Stmt::Call(e) => {
            let e2 = ed_expr(e, ed);
            if matches!(e2, Expr::Call { .. } | Expr::MethodCall { .. }) {
                Stmt::Call(e2)
            } else {
                Stmt::Local { names: vec![Binding { name: "_".into(), ty: None, span: (0, 0) }], values: vec![e2], is_const: false }
            }
        }
        Stmt::Do(b) => Stmt::Do(ed_block(b, ed)),
        Stmt::While { cond, body } => Stmt::While { cond: ed_expr(cond, ed), body: ed_block(body, ed) },
        Stmt::Repeat { body, cond } => {
            let b = ed_block(body, ed);
            Stmt::Repeat { body: b, cond: ed_expr(cond, ed) }
        }
        Stmt::If { clauses, else_block } => {
            let drop_last = ed.hit();
            let mut cl: Vec<(Expr, Block)> = clauses.iter().map(|(c, b)| (ed_expr(c, ed), ed_block(b, ed))).collect();
            let mut eb = else_block.as_ref().map(|b| ed_block(b, ed));
            if drop_last {
                if eb.is_some() {
                    eb = None;
                } else if cl.len() > 1 {
                    cl.pop();
                }
            }
            Stmt::If { clauses: cl, else_block: eb }
        }
        Stmt::NumFor { var, start, limit, step, body } => Stmt::NumFor { var: var.clone(), start: ed_expr(start, ed), limit: ed_expr(limit, ed), step: step.as_ref().map(|s| ed_expr(s, ed)), body: ed_block(body, ed) },
        Stmt::GenFor { vars, exprs, body } => {
            let e = ed_exprs(exprs, ed);
            let b = ed_block(body, ed);
            if e.is_empty() {
                return Stmt::Do(b);
            }
            Stmt::GenFor { vars: vars.clone(), exprs: e, body: b }
        }
        Stmt::Function { name, func } => Stmt::Function { name: name.clone(), func: ed_func(func, ed) },
        Stmt::LocalFunction { name, func } => Stmt::LocalFunction { name: name.clone(), func: ed_func(func, ed) },
        Stmt::TypeFunction { exported, name, func } => Stmt::TypeFunction { exported: *exported, name: name.clone(), func: ed_func(func, ed) },
        Stmt::Return(es) => Stmt::Return(ed_exprs(es, ed)),
        other => other.clone(),
    }
}

fn children(e: &Expr) -> Vec<Expr> {
    match e {
        Expr::Index(a, b) | Expr::Binary(_, a, b) => vec![(**a).clone(), (**b).clone()],
        Expr::Field(a, _) | Expr::Unary(_, a) | Expr::Paren(a) | Expr::Cast(a, _) | Expr::TypeInstantiation(a, _) => vec![(**a).clone()],
        Expr::Call { func, args, .. } => {
            let mut v = vec![];
            if let Some(a) = args.first() {
                v.push(a.clone());
            }
            v.push((**func).clone());
            v
        }
        Expr::MethodCall { obj, args, .. } => {
            let mut v = vec![(**obj).clone()];
            if let Some(a) = args.first() {
                v.push(a.clone());
            }
            v
        }
        Expr::IfExpr { clauses, else_ } => vec![clauses[0].1.clone(), (**else_).clone()],
        Expr::Table(items) => items
            .iter()
            .take(2)
            .map(|it| match it {
                TableItem::Pos(v) | TableItem::Named(_, v) | TableItem::Keyed(_, v) => v.clone(),
            })
            .collect(),
        Expr::Interp(parts) => parts.iter().filter_map(|p| if let InterpPart::Expr(e) = p { Some(e.clone()) } else { None }).take(2).collect(),
        _ => vec![],
    }
}

fn ed_expr(e: &Expr, ed: &mut Ed) -> Expr {
    let h0 = ed.hit();
    let h1 = ed.hit();
    if h0 || h1 {
        // skip the positions of the subtree
        let mut n = 0;
        count_expr(e, &mut n);
        *ed.counter += n - 2;
        let ch = children(e);
        if h0 {
            if let Some(c) = ch.first() {
                return c.clone();
            }
            return match e {
                Expr::Nil => Expr::Nil,
                Expr::Number(..) | Expr::True | Expr::False | Expr::Str(..) => Expr::Nil,
                _ => Expr::Number(1.0, "1".into()),
            };
        }
        if let Some(c) = ch.get(1) {
            return c.clone();
        }
        return match e {
            Expr::Number(v, _) if *v != 1.0 => Expr::Number(1.0, "1".into()),
            Expr::Str(s, _) if !s.is_empty() => Expr::Str(vec![], "''".into()),
            _ => Expr::Nil,
        };
    }
    match e {
        Expr::Function(f) => Expr::Function(ed_func(f, ed)),
        Expr::Index(a, b) => Expr::Index(Box::new(ed_expr(a, ed)), Box::new(ed_expr(b, ed))),
        Expr::Field(a, f) => Expr::Field(Box::new(ed_expr(a, ed)), f.clone()),
        Expr::Call { func, args, sugar } => {
            let f = ed_expr(func, ed);
            let a = ed_exprs(args, ed);
            let sugar = if a.len() == 1 && ((*sugar == CallSugar::Str && matches!(a[0], Expr::Str(..) | Expr::Interp(..))) || (*sugar == CallSugar::Table && matches!(a[0], Expr::Table(..)))) { *sugar } else { CallSugar::Parens };
            Expr::Call { func: Box::new(f), args: a, sugar }
        }
        Expr::MethodCall { obj, name, args, sugar, targs } => {
            let o = ed_expr(obj, ed);
            let a = ed_exprs(args, ed);
            let sugar = if a.len() == 1 && ((*sugar == CallSugar::Str && matches!(a[0], Expr::Str(..))) || (*sugar == CallSugar::Table && matches!(a[0], Expr::Table(..)))) { *sugar } else { CallSugar::Parens };
            Expr::MethodCall { obj: Box::new(o), name: name.clone(), args: a, sugar, targs: targs.clone() }
        }
        Expr::Binary(op, a, b) => Expr::Binary(*op, Box::new(ed_expr(a, ed)), Box::new(ed_expr(b, ed))),
        Expr::Unary(op, a) => Expr::Unary(*op, Box::new(ed_expr(a, ed))),
        Expr::Paren(a) => Expr::Paren(Box::new(ed_expr(a, ed))),
        Expr::Cast(a, t) => Expr::Cast(Box::new(ed_expr(a, ed)), t.clone()),
        Expr::TypeInstantiation(a, t) => Expr::TypeInstantiation(Box::new(ed_expr(a, ed)), t.clone()),
        Expr::Table(items) => {
            let drop_last = ed.hit();
            let mut out: Vec<TableItem> = items
                .iter()
                .map(|it| match it {
                    TableItem::Pos(v) => TableItem::Pos(ed_expr(v, ed)),
                    TableItem::Named(n, v) => TableItem::Named(n.clone(), ed_expr(v, ed)),
                    TableItem::Keyed(k, v) => {
                        let k2 = ed_expr(k, ed);
                        TableItem::Keyed(k2, ed_expr(v, ed))
                    }
                })
                .collect();
            if drop_last {
                out.pop();
            }
            Expr::Table(out)
        }
        Expr::IfExpr { clauses, else_ } => {
            let cl = clauses.iter().map(|(c, v)| (ed_expr(c, ed), ed_expr(v, ed))).collect();
            Expr::IfExpr { clauses: cl, else_: Box::new(ed_expr(else_, ed)) }
        }
        Expr::Interp(parts) => Expr::Interp(
            parts
                .iter()
                .map(|p| match p {
                    InterpPart::Expr(e) => InterpPart::Expr(ed_expr(e, ed)),
                    other => other.clone(),
                })
                .collect(),
        ),
        other => other.clone(),
    }
}
