//! Seed corpus (committed under /verif/corpus/corpus.json).
use serde_json::Value;

#[derive(Clone, Debug)]
pub struct CorpusItem {
    pub kind: String,
    pub name: String,
    pub text: String,
}

pub fn load() -> Vec<CorpusItem> {
    let dir = std::env::var("DLVERIF_CORPUS").unwrap_or_else(|_| "/verif/corpus/corpus.json".to_string());
    let Ok(s) = std::fs::read_to_string(&dir) else { return vec![] };
    let Ok(v) = serde_json::from_str::<Value>(&s) else { return vec![] };
    v.as_array()
        .map(|a| {
            a.iter()
                .map(|i| CorpusItem { kind: i["kind"].as_str().unwrap_or("").to_string(), name: i["name"].as_str().unwrap_or("").to_string(), text: i["text"].as_str().unwrap_or("").to_string() })
                .collect()
        })
        .unwrap_or_default()
}
