#![allow(dead_code)]
mod corpus;
mod dev;
mod dl;
mod framework;
mod gen;
mod mon;
mod reflua;
mod rng;
mod selftest;

use framework::*;
use std::path::PathBuf;

fn usage() -> ! {
    eprintln!("usage: dlverif drive <ID> --tier quick|thorough [--seed N] [--jobs N] [--budget S] [--verif-dir D]\n       dlverif work <ID> ... (internal)\n       dlverif replay <replay.json>\n       dlverif replay-case <ID> <case.json>\n       dlverif selftest");
    std::process::exit(2)
}

fn arg_val(args: &[String], name: &str) -> Option<String> {
    args.iter().position(|a| a == name).and_then(|i| args.get(i + 1).cloned())
}

fn run_with_big_stack<T: Send + 'static>(f: impl FnOnce() -> T + Send + 'static) -> T {
    // 8 MiB: the size of the main-thread stack darklua's users get
    std::thread::Builder::new().stack_size(8 * 1024 * 1024).spawn(f).expect("spawn").join().unwrap_or_else(|_| {
        eprintln!("harness thread panicked");
        std::process::exit(2)
    })
}

fn main() {
    let args: Vec<String> = std::env::args().collect();
    framework::install_panic_hook();
    if args.len() < 2 {
        usage();
    }
    let code = match args[1].as_str() {
        "drive" => {
            let id = args.get(2).cloned().unwrap_or_else(|| usage());
            let tier = Tier::parse(&arg_val(&args, "--tier").unwrap_or_else(|| "quick".into())).unwrap_or_else(|| usage());
            let seed = arg_val(&args, "--seed").and_then(|s| s.parse().ok()).unwrap_or(1u64);
            let jobs = arg_val(&args, "--jobs").and_then(|s| s.parse().ok()).unwrap_or_else(|| std::thread::available_parallelism().map(|n| n.get() as u64).unwrap_or(4));
            let budget_s = arg_val(&args, "--budget").and_then(|s| s.parse().ok());
            let verif_dir = PathBuf::from(arg_val(&args, "--verif-dir").unwrap_or_else(|| "/verif".into()));
            if mon::make(&id).is_none() {
                eprintln!("unknown property {}", id);
                std::process::exit(2);
            }
            let id2 = id.clone();
            drive(&id, &move || mon::make(&id2).unwrap(), DriveArgs { tier, seed, jobs, budget_s, verif_dir })
        }
        "work" => {
            let id = args.get(2).cloned().unwrap_or_else(|| usage());
            let wa = WorkArgs {
                tier: Tier::parse(&arg_val(&args, "--tier").unwrap()).unwrap(),
                seed: arg_val(&args, "--seed").unwrap().parse().unwrap(),
                shard: arg_val(&args, "--shard").unwrap().parse().unwrap(),
                nshards: arg_val(&args, "--nshards").unwrap().parse().unwrap(),
                start: arg_val(&args, "--start").unwrap().parse().unwrap(),
                budget_s: arg_val(&args, "--budget").unwrap().parse().unwrap(),
                dir: PathBuf::from(arg_val(&args, "--dir").unwrap()),
                verif_dir: PathBuf::from(arg_val(&args, "--verif-dir").unwrap_or_else(|| "/verif".into())),
            };
            run_with_big_stack(move || {
                let mut m = mon::make(&id).unwrap_or_else(|| usage());
                worker_main(m.as_mut(), wa)
            })
        }
        "replay-case" => {
            let id = args.get(2).cloned().unwrap_or_else(|| usage());
            let file = args.get(3).cloned().unwrap_or_else(|| usage());
            let text = std::fs::read_to_string(&file).expect("read case");
            let case: serde_json::Value = serde_json::from_str(&text).expect("parse case");
            // watchdog thread: exit 3 when CPU time exceeds 3x the per-case limit
            let limit = mon::make(&id).unwrap_or_else(|| usage()).case_cpu_limit_s() * 3.0;
            std::thread::spawn(move || loop {
                std::thread::sleep(std::time::Duration::from_millis(200));
                if cpu_time_s() > limit {
                    std::process::exit(3);
                }
            });
            let vd = PathBuf::from(arg_val(&args, "--verif-dir").unwrap_or_else(|| "/verif".into()));
            run_with_big_stack(move || {
                let mut m = mon::make(&id).unwrap();
                m.set_known(&open_known_signatures(&vd, &id));
                let v = replay_case(m.as_mut(), &case);
                println!("{}", serde_json::to_string(&v).unwrap());
                if v["verdict"] == "violated" {
                    1
                } else {
                    0
                }
            })
        }
        "replay" => {
            let file = args.get(2).cloned().unwrap_or_else(|| usage());
            let text = std::fs::read_to_string(&file).expect("read replay file");
            let rec: serde_json::Value = serde_json::from_str(&text).expect("parse replay file");
            let id = rec["property"].as_str().unwrap_or_else(|| usage()).to_string();
            let which = if args.iter().any(|a| a == "--original") { "case" } else { "shrunk" };
            let case = rec.get(which).cloned().unwrap_or(rec["case"].clone());
            let vd = PathBuf::from(arg_val(&args, "--verif-dir").unwrap_or_else(|| "/verif".into()));
            run_with_big_stack(move || {
                let mut m = mon::make(&id).unwrap_or_else(|| usage());
                m.set_known(&open_known_signatures(&vd, &id));
                let v = replay_case(m.as_mut(), &case);
                println!("case: {}", serde_json::to_string_pretty(&case).unwrap());
                println!("verdict: {}", v["verdict"]);
                if let Some(s) = v["signature"].as_str() {
                    println!("signature: {}", s);
                }
                if let Some(s) = v["detail"].as_str() {
                    println!("detail:\n{}", s);
                }
                if v["verdict"] == "violated" {
                    println!("VIOLATION property={} replay={}", id, file);
                    1
                } else {
                    0
                }
            })
        }
        "dev" => run_with_big_stack(move || dev::main(&args[2..])),
        "shrink" => {
            // dlverif shrink <replay.json> [seconds]: keep shrinking the recorded case, rewrite the file
            let file = args.get(2).cloned().unwrap_or_else(|| usage());
            let secs: u64 = args.get(3).and_then(|s| s.parse().ok()).unwrap_or(60);
            let text = std::fs::read_to_string(&file).expect("read replay file");
            let mut rec: serde_json::Value = serde_json::from_str(&text).expect("parse replay file");
            let id = rec["property"].as_str().unwrap_or_else(|| usage()).to_string();
            run_with_big_stack(move || {
                let mut m = mon::make(&id).unwrap_or_else(|| usage());
                let case = rec.get("shrunk").cloned().unwrap_or(rec["case"].clone());
                let mut cov = Cov::new();
                let coarse = match m.run(&case, &mut cov) {
                    Verdict::Violated { signature, .. } => signature,
                    _ => {
                        println!("case does not fail");
                        return 1;
                    }
                };
                let (shrunk, detail, steps) = shrink_case(m.as_mut(), &case, &coarse, std::time::Duration::from_secs(secs));
                let fine = m.classify(&shrunk, &coarse);
                println!("shrink steps: {}\nsignature: {}\n{}", steps, fine, if detail.is_empty() { rec["detail"].as_str().unwrap_or("").to_string() } else { detail.clone() });
                rec["shrunk"] = shrunk;
                rec["signature"] = serde_json::json!(fine);
                if !detail.is_empty() {
                    rec["detail"] = serde_json::json!(detail);
                }
                let _ = std::fs::write(&file, serde_json::to_string_pretty(&rec).unwrap());
                0
            })
        }
        "selftest" => run_with_big_stack(|| mon::selftest()),
        _ => usage(),
    };
    std::process::exit(code);
}
