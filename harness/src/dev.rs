//! developer utilities (not used by checks)
use crate::reflua::{parser, print};
use crate::{corpus, dl};

pub fn main(args: &[String]) -> i32 {
    match args.first().map(|s| s.as_str()) {
        Some("corpus") => {
            let items = corpus::load();
            let (mut both, mut neither, mut only_dl, mut only_ref, mut rt_fail) = (0, 0, 0, 0, 0);
            for it in &items {
                let d = match crate::framework::guarded(|| dl::parse(&it.text)) {
                    Ok(d) => d,
                    Err(m) => {
                        println!("=== DARKLUA PANIC [{}] {}: {}\n{}", it.kind, it.name, m, it.text);
                        continue;
                    }
                };
                let r = parser::parse_block(&it.text, parser::Mode::Luau);
                match (&d, &r) {
                    (Ok(_), Ok(b)) => {
                        both += 1;
                        let printed = print::print_block(b);
                        match parser::parse_block(&printed, parser::Mode::Luau) {
                            Ok(b2) => {
                                let p2 = print::print_block(&b2);
                                if p2 != printed {
                                    rt_fail += 1;
                                    println!("=== ROUNDTRIP DIFF [{}] {}\n{}\n--- printed\n{}\n--- reprinted\n{}", it.kind, it.name, it.text, printed, p2);
                                }
                            }
                            Err(e) => {
                                rt_fail += 1;
                                println!("=== ROUNDTRIP PARSE FAIL [{}] {}: {}\n{}\n--- printed\n{}", it.kind, it.name, e, it.text, printed);
                            }
                        }
                    }
                    (Err(_), Err(_)) => neither += 1,
                    (Ok(_), Err(e)) => {
                        only_dl += 1;
                        if args.len() > 1 {
                            println!("=== ONLY DARKLUA [{}] {}: reflua says {}\n{}", it.kind, it.name, e, it.text.chars().take(600).collect::<String>());
                        }
                    }
                    (Err(e), Ok(_)) => {
                        only_ref += 1;
                        if args.len() > 1 {
                            println!("=== ONLY REFLUA [{}] {}: darklua says {}\n{}", it.kind, it.name, e.chars().take(300).collect::<String>(), it.text.chars().take(600).collect::<String>());
                        }
                    }
                }
            }
            println!("both={} neither={} only_darklua={} only_reflua={} roundtrip_fail={}", both, neither, only_dl, only_ref, rt_fail);
            0
        }
        Some("proc") => {
            // dlverif dev proc '<config json5>' <file|->   : run darklua on one file, print the output
            let cfg = &args[1];
            let text = if args[2] == "-" {
                let mut s = String::new();
                use std::io::Read;
                std::io::stdin().read_to_string(&mut s).unwrap();
                s
            } else {
                std::fs::read_to_string(&args[2]).unwrap()
            };
            match crate::framework::guarded(|| dl::process_one(&text, cfg)) {
                Ok(Ok(o)) => {
                    print!("{}", o);
                    0
                }
                Ok(Err(e)) => {
                    println!("ERROR: {}", e);
                    1
                }
                Err(p) => {
                    println!("PANIC: {}", p);
                    3
                }
            }
        }
        Some("run") => {
            // dlverif dev run <file|-> : run with the reference interpreter (both dialects)
            let text = if args[1] == "-" {
                let mut s = String::new();
                use std::io::Read;
                std::io::stdin().read_to_string(&mut s).unwrap();
                s
            } else {
                std::fs::read_to_string(&args[1]).unwrap()
            };
            for d in [crate::reflua::literal::Dialect::L51, crate::reflua::literal::Dialect::Luau] {
                match crate::reflua::run_source(&text, d, 1_000_000, args.len() > 2) {
                    Ok(o) => println!("[{:?}] {}\n  uncertain: {:?}", d, crate::mon::exec::describe(&o), o.uncertain),
                    Err(e) => println!("parse error: {}", e),
                }
            }
            0
        }
        Some("c02-find") => {
            // index of the enumerated tree whose normal form equals the argument
            let mut i = 0u64;
            while let Some(t) = crate::mon::c02::enum_tree(i) {
                if crate::mon::c02::norm_expr_top(&t) == args[1] {
                    println!("{}", i);
                }
                i += 1;
            }
            0
        }
        Some("parse") => {
            let text = std::fs::read_to_string(&args[1]).unwrap();
            match parser::parse_block(&text, parser::Mode::Luau) {
                Ok(b) => {
                    println!("{}", print::print_block(&b));
                    0
                }
                Err(e) => {
                    println!("error: {}", e);
                    1
                }
            }
        }
        _ => 2,
    }
}
