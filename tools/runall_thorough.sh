#!/bin/bash
# thorough tier of every check at one seed; keeps a copy of each evidence file under evidence/thorough/
seed=${1:-1}
cd "$(dirname "$0")/.."
mkdir -p evidence/thorough
for id in C01 C02 C03 C04 C05 C06 C07 C08 C09 C10 C11 C12 C13 C14 C15 C16 C17 C18 C19 C20; do
  out=$(VERIF_SEED=$seed ./check $id thorough 2>&1); rc=$?
  echo "== $id rc=$rc $(echo "$out" | grep -c '^KNOWN-FINDING') known-lines"
  echo "$out" | grep -E "^VIOLATION|^  signature|^$id |INCONCLUSIVE|floor" | cut -c1-300
  cp evidence/$id.json evidence/thorough/$id.json 2>/dev/null
done
echo ALLDONE
