#!/usr/bin/env python3
import json,sys,re
r=json.load(open(sys.argv[1])); d=r['detail']
def grab(tag):
    m=re.search(r'--- '+tag+r'[^\n]*\n("(?:[^"\\]|\\.)*")',d)
    return json.loads(m.group(1)) if m else None
b=grab('baseline') or grab('input'); o=grab('output')
print('SIG',r['signature']); print('  ',d.split('\n')[0][:260])
m=re.search(r'--- rules (.*) generator',d); print('   RULES',m.group(1)[:200] if m else '')
if b is not None and o is not None:
    p=0
    while p<min(len(b),len(o)) and b[p]==o[p]: p+=1
    print('   first diff at',p,'of',len(b)); print('   BASE',repr(b[max(0,p-70):p+70])); print('   OUT ',repr(o[max(0,p-70):p+90]))
