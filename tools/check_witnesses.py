#!/usr/bin/env python3
"""replay the stored witness of every known finding: open ones must fail with a matching signature, fixed ones must hold"""
import json,subprocess,re,sys,os
os.chdir(os.path.dirname(os.path.abspath(__file__))+'/..')
for v in ('DLVERIF_DARKLUA_BIN','DLVERIF_DARKLUA_CLI'):
    os.environ.setdefault(v, os.getcwd()+'/harness/target/repo-cli/release/darklua')
os.environ.setdefault('DLVERIF_SCRATCH','/dev/shm')
# the harness binary links /repo's working tree: rebuild it first (it may be left over from a run against a seeded change)
subprocess.run(['./check','--build'],check=False)
subprocess.run(['./check','--setup'],stdout=subprocess.DEVNULL,check=False)
k=json.load(open('known_findings.json'))
bad=0
for e in k:
    w=e.get('witness')
    if not w: print('NO-WITNESS',e['property'],e['key']); continue
    out=subprocess.run(['./harness/target/release/dlverif','replay',w],capture_output=True,text=True).stdout
    v=re.search(r'^verdict: "?(\w+)',out,re.M); s=re.search(r'^signature: (.*)$',out,re.M)
    v=v.group(1) if v else '?'; s=s.group(1).strip() if s else ''
    if e['status']=='open':
        ok = v=='violated' and re.fullmatch(e['signature'],s) is not None
    else:
        ok = v in('held','discard','discarded')
    if not ok:
        bad+=1; print('MISMATCH',e['property'],e['status'],e['key'],'->',v,s[:150])
print('checked',len(k),'bad',bad)
