#!/usr/bin/env python3
"""compact view of a replay file: signature + first differing hunks between two texts found in the detail"""
import json,sys,difflib,re
r=json.load(open(sys.argv[1]))
print('SIG',r['signature'])
d=r['detail']
def grab(tag):
    m=re.search(r'--- '+tag+r'[^\n]*\n("(?:[^"\\]|\\.)*")',d)
    return json.loads(m.group(1)) if m else None
base=grab('baseline') or grab('input'); out=grab('output')
print('HEAD',d[:int(sys.argv[2]) if len(sys.argv)>2 else 300].replace('\n',' | '))
if base is not None and out is not None:
    a=base.replace('\r','␍').split('\n'); b=out.replace('\r','␍').split('\n')
    n=0
    for l in difflib.unified_diff(a,b,lineterm='',n=1):
        print('   ',l[:160]); n+=1
        if n>24: break
