#!/bin/bash
# Confirm a seeded change in my own scratch worktree: suite passes with the patch, demo fails with it and passes without it.
# usage: seed_confirm.sh <dir containing patch.diff and demo/>   (prints a JSON summary line; exit 0 if all three confirmed)
set -u
D=$(readlink -f "$1"); WT=${SEEDWT:-/tmp/seedconfirm}
if [ ! -d $WT ]; then git -C /repo worktree add --detach $WT HEAD -q; cp -r /repo/target $WT/target; fi
cd $WT; git checkout -q --detach $(git -C /repo rev-parse HEAD); git checkout -- . ; rm -f tests/demo.rs; rm -rf tests/demo_files
if ! git apply --check "$D/patch.diff" 2>/dev/null; then echo "{\"dir\":\"$D\",\"applies\":false}"; exit 1; fi
run_demo() {
  if [ -f "$D/demo/demo.rs" ]; then
    cp "$D/demo/demo.rs" tests/demo.rs; for f in "$D"/demo/*; do case "$f" in *demo.rs) ;; *) mkdir -p tests/demo_files; cp -r "$f" tests/demo_files/ ;; esac; done
    CARGO_NET_OFFLINE=true timeout 1200 cargo test --offline --test demo >$WT.demo.log 2>&1; rc=$?
    rm -f tests/demo.rs; rm -rf tests/demo_files; return $rc
  elif [ -f "$D/demo/demo.sh" ]; then
    CARGO_NET_OFFLINE=true cargo build --offline -q 2>/dev/null; (cd "$D/demo" && timeout 600 bash ./demo.sh $WT/target/debug/darklua) >$WT.demo.log 2>&1; return $?
  else return 99; fi
}
git apply "$D/patch.diff"
CARGO_NET_OFFLINE=true timeout 3000 cargo nextest run --workspace --no-fail-fast --test-threads 8 --offline >$WT.suite.log 2>&1; suite=$?
summary=$(grep -E "^\s+Summary" $WT.suite.log | tail -1 | sed 's/^ *//')
run_demo; with=$?
git apply -R "$D/patch.diff"
run_demo; without=$?
git checkout -- .
ok=1; [ $suite -eq 0 ] && [ $with -ne 0 ] && [ $with -ne 99 ] && [ $without -eq 0 ] && ok=0
echo "{\"dir\":\"$D\",\"applies\":true,\"suite_rc\":$suite,\"suite\":\"$summary\",\"demo_with_patch_rc\":$with,\"demo_without_patch_rc\":$without,\"confirmed\":$([ $ok -eq 0 ] && echo true || echo false)}"
exit $ok
