#!/usr/bin/env python3
"""append the outcome of one check run against a seeded change to <seeded dir>/runs.jsonl
usage: seed_record.py <dir> <check id> <tier> <exit code> <file with the check's output>"""
import json,sys
d,cid,tier,rc,outf=sys.argv[1:6]
out=open(outf,errors='replace').read()
sigs=[l.strip()[len('signature: '):] for l in out.splitlines() if l.strip().startswith('signature:')]
summ=[l for l in out.splitlines() if l.startswith(cid+' quick') or l.startswith(cid+' thorough')]
known=sum(1 for l in out.splitlines() if l.startswith('KNOWN-FINDING'))
open(d+'/runs.jsonl','a').write(json.dumps({'check':cid,'tier':tier,'exit':int(rc),'signatures':sigs[:4],'known_finding_lines':known,'summary':summ[0] if summ else ''})+'\n')
