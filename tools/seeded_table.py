#!/usr/bin/env python3
"""fill DESIGN.md between <!-- SEEDED:BEGIN --> and <!-- SEEDED:END --> from seeded/*/meta.json and runs.jsonl"""
import json,os,glob,re
os.chdir(os.path.dirname(os.path.abspath(__file__))+'/..')
rows=[]
for d in sorted(glob.glob('seeded/C*-*')):
    try: m=json.load(open(d+'/meta.json'))
    except Exception: continue
    runs=[]
    if os.path.exists(d+'/runs.jsonl'):
        for l in open(d+'/runs.jsonl'):
            try: runs.append(json.loads(l))
            except Exception: pass
    name=os.path.basename(d)
    summ=(m.get('summary') or '').replace('|','\\|').replace('\n',' ')
    if len(summ)>230: summ=summ[:227]+'…'
    needs=(m.get('needs') or '')
    if isinstance(needs,list): needs='; '.join(map(str,needs))
    needs=needs.replace('|','\\|').replace('\n',' ')
    if len(needs)>200: needs=needs[:197]+'…'
    # verdict per check: last run wins; earlier misses are reported
    by={}
    for r in runs: by.setdefault(r['check'],[]).append(r)
    cells=[]
    for c,rs in by.items():
        last=rs[-1]
        missed_before=any(x['exit']==0 for x in rs[:-1])
        if last['exit']==1:
            sig=(last.get('signatures') or [''])[0]
            if len(sig)>70: sig=sig[:67]+'…'
            cells.append(f"**{c} {last['tier']}: caught** (`{sig}`)"+(" — missed before the check was strengthened" if missed_before else ""))
        elif last['exit']==0:
            cells.append(f"{c} {last['tier']}: **missed**")
        else:
            cells.append(f"{c} {last['tier']}: run inconclusive (exit {last['exit']})")
    note=m.get('note_verdict','')
    rows.append(f"| {name} | {summ} | {needs} | {'; '.join(cells) if cells else 'not run yet'}{(' — '+note) if note else ''} |")
caught=sum(1 for r in rows if 'caught**' in r)
own=sum(1 for r in rows if 'caught**' in r and 'missed**' not in r)
text="Each row is one change written by a fresh sub-agent that saw only the property text (never /verif), confirmed by me in a scratch worktree\n(`tools/seed_confirm.sh`: the repository's full suite passes with the patch, the author's demonstration fails with it and passes without it), stored under\n`seeded/<property>-<n>/` (patch.diff, demo/, meta.json, runs.jsonl) and then applied to /repo, checked (`tools/seed_run.sh`) and reverted.\n\n"
text+=f"{len(rows)} changes in four rounds, {caught} caught after the strengthening described below the table: {own} by the check of the property they were written against, {caught-own} by the check of the neighbouring property they actually break (the row says which and why).\n\n"
text+="| change | what was changed | needs | outcome |\n|---|---|---|---|\n"+"\n".join(rows)+"\n"
text+="""
**First pass: 28 of 40 caught.**  What the twelve misses showed, and what was changed (each change was then re-run against the seeded change *and* against the unchanged tree at several seeds):

| missed | why the check was blind | strengthening |
|---|---|---|
| C02-2 | the tree flow only held short strings: none qualified for the long-bracket form | six strings >= 60 bytes (CR, CRLF, TAB, VT, FF, bracket runs, leading LF) among the special operands, in every operator position |
| C04-2 | no generated token spanned several lines | string literals are re-spelled as long-bracket strings with line breaks and as quoted strings with `\\`-newline / `\\z` continuations before layout (this also exposed an open finding: remove_compound_assignment duplicates a multi-line token) |
| C06-2 | compound-assignment targets had one key shape (`extt()[ext("k")]`) | every key/prefix shape the rule tells apart (cast, parenthesised, binary, unary, if-expression, interpolated string, index, field; parenthesised / cast / table-field prefixes), each with a logged side effect (exposed two defects, both repaired: interpolated-string key evaluated twice; missing `;` after generator-added parentheses) |
| C08-1 | if-expressions had a single branch | all `if a then .. elseif b then .. else ..` with one and two elseif over a leaf set of 8 (exhaustive) and elseif chains in random expressions |
| C10-2 | the change is in `file_watcher.rs`; the only back end was the API-level protocol model | live `--watch` back end (built just before) plus new operations `mvin` (file moved into the input tree from an unwatched place, new or over an existing source) and `mvout` |
| C11-1 | existing output directories were never named with a dot | `dist.v2`, `existing/out.d` |
| C11-2 | under fail-fast only "nothing wrong is written" was judged | with a faulty file in the work set the run has to report an error |
| C13-1 | no string long enough for the bracket form held closers of two levels | 32 texts with every subset of `]]`, `]=]`, `]==]`, `]===]` with and without a trailing `]` |
| C15-1 | a tolerance meant for the listed "short form shadowed by a sibling" finding also accepted any dropped `init` whatever the target's module folder name | tolerance restricted to the target mode's own folder name |
| C17-1 | `_G` was never shadowed while the injected name was read through it | `local _G = { NAME = .. }` and a local NAME next to `_G.NAME` / `_G["NAME"]` |
| C17-2 | profiling calls only stood in statement position | value positions (local, argument, parenthesised, condition, comparison) with 0-3 arguments returning false / nothing / several values (exposed a defect, repaired: `f() and nil` is false; and an open one: `nil` written in a multi-value tail position) |
| C19-2 | the contradictory pair was rejected anyway, by the invalid JSON in the environment variable it named | pairs whose only possible rejection is the collision check (variable unset) |

Second pass: 40 of 40 caught (see the outcome column; "missed before the check was strengthened" marks the twelve).

**Second round** (`<property>-3`, `<property>-4`): forty more changes by fresh sub-agents that were additionally told which changes already
existed for their property ("do not repeat them, look at other functions and other clauses").  First pass: 24 of 40 caught.  The sixteen misses:

| missed | why the check was blind | strengthening |
|---|---|---|
| C02-3 | no statement started with `_` right after a statement ending in a digit | 650 statement pairs whose last / first tokens meet every combination of character classes (text flow, spans 80/0/1/9) |
| C02-4 | no string operand held bytes >= 0x80 | UTF-8 text, non-UTF-8 bytes, a single high byte and non-ASCII text in an interpolated string among the special operands |
| C04-3 | a removed statement never carried three or more comments on separate lines | layout option: documentation blocks of 3-5 line comments (some separated by blank lines) before statements |
| C04-4 | bundling was left out of the line monitor although the property names it | bundle flow: an entry and 1-3 modules, each with its own marker range, bundled with retain_lines; within every source file all surviving markers must move by the same amount |
| C05-3 | values of data files were only compared through a `name` field | eight data documents (negative / huge / fractional numbers in json, json5, yaml, toml; text) whose every value is compared |
| C05-4 | at most nine modules per bundle | bundles of 60, 130 and 320 modules (accessor names beyond the 53 one-character ones) |
| C06-3 | interpolated strings without values, and `%` in their text, were never generated | text-only interpolated strings and `%`, `%d`, `%s%%` in literal segments |
| C06-4 | if-expression branch values were never if-expressions with a constant first condition | nested `(if false then .. elseif c then false else ..)` values |
| C07-3 | no function holding an empty loop stood before a `continue` | such a function (while / repeat / numeric for / generic for with an empty body) is placed before the `continue` in a third of the loops |
| C08-4 | the end-to-end fold check only covered closed expressions; no table constructor held a call | folding is also checked for expressions with opaque leaves in all nine environments; leaf `{f()}` added |
| C09-4 | a global named like a generated name was always used *before* any local of that name | `do local a = 1 sink(a) end` / a parameter / a loop variable first, the global `a` afterwards |
| C10-3 | the tolerance for the listed "failed require is not a recorded dependency" finding covered every error that followed any unloadable dependency | new operation `cut` (a module rewritten without its requires); the tolerance now needs the unloadable file itself to have been repaired |
| C11-4 | which files are faulty was decided by darklua's own single-file run | a source that is not valid UTF-8 has to fail, whatever the single-file run says |
| C12-4 | only single files were processed | batch cases: 2-7 files, some unparsable; every parsable file must be written or named by an error, every unparsable one named by an error, nothing aborts half way |
| C15-3 | an alias defined in the configuration and in `.luaurc` was treated as undecided | the documented order (`.luaurc` first) is the model; the path mode, which does the opposite, became a listed finding |
| C15-4 | no require string designated a directory above the requiring file | `..`, `../..`, `../.` from files inside `m/`, with every subset of `m.luau`, `m.lua`, `m/init.*` present |
| C17-3 | preserved arguments were literals or calls, never effectful non-calls | `assert(h.f0, ext(), h[2])` on an object whose `__index` logs |

After strengthening: 80 of 80 caught.

**Third round** (`<property>-5`, `<property>-6`; ten properties: C01, C02, C04, C05, C06, C10, C11, C12, C15, C17): first pass 11 of 20 caught.  The nine misses:

| missed | why the check was blind | strengthening |
|---|---|---|
| C02-5 | the statement pairs never ended with a type instantiation, and a second statement starting with `(` was not separated by `;` in the source | first statements ending in `f<<T>>`, `f()`, `a.b`, `(a)`, `a:m()` ...; second statements `(g)()`, `(t).x = 1`, `(t)[1] += 1`, `(g):m()` (written with `;` in the source, which the generators have to keep) |
| C02-6 | no `const` declaration with fewer values than names was built | the statement-pair block builds one (the generators pad it with `nil`) |
| C05-5 | bundles were only built from in-memory files, where nothing is a directory | one random project in ten is written to a real scratch directory |
| C05-6 | no project used a `.luaurc`; and a failure that depends on an earlier case in the same process was dropped as "not reproduced" | `.luaurc` alias with a target that differs between projects; **the driver now replays an unreproduced candidate together with the (up to 12) cases the same worker generated before it**, in a fresh process, and reports it as `...@after-earlier-cases` with that sequence as the replay; three or more candidates that reproduce in neither way make the run inconclusive (exit 2) instead of silent |
| C06-5 | `//` never occurred twice with `math` shadowed only at the second occurrence | a floor division at top level followed by one under a parameter / local called `math` |
| C11-5 | no tree held nested `.luaurc` files (order dependence of the alias cache) | hand-written scenario with three nested `.luaurc`, six file orders, both back ends (caught through "batch differs from the file alone"; before the sequence replay existed it was hit or miss) |
| C12-5 | no generated string long enough for the bracket form held closers of two levels | 128 programs with every combination of `]]`, `]=]`, `]==]`, `]===]` and endings `]`, `]=`, `]]` (found a real defect on the way: a content ending with `]=` closes `[=[ .. ]=]` early; repaired) |
| C17-5 | `profilebegin` / `assert` only existed on `debug`, on locals and as globals | the same field names on other global tables (`Profiler.profilebegin(..)`) |
| C17-6 | removed calls never used the table-call syntax | `assert { [ext()] = true, f = ext() }`, `debug.profilebegin { .. }` with effects in keys and values |

After strengthening: 100 of 100 caught.

**Third round, second half** (the other ten properties: C03, C07, C08, C09, C13, C14, C16, C18, C19, C20): first pass 14 of 20 caught.  The six misses:

| missed | why the check was blind | strengthening |
|---|---|---|
| C03-6 | interpolated strings came from values or from two hand-written files: no literal piece had text but an empty value (`\\z` followed by blanks) | one generated case in twelve is a statement around a raw quoted / interpolated literal assembled from escape pieces (`\\z` + blanks, `\\z` + newline, line continuations, every escape form, `\\{`) with holes before, between and after them |
| C07-5 | the position table held functions in four places but never as the value of a `[key] = value` table entry | eight more statement positions (function as bracket-key / named / positional table value, call argument, generic-for header, numeric-for bound, if condition, return value) and three more expression positions |
| C13-5 | the change is in *reading* `\\ddd` escapes; C13 speaks about what darklua writes (reading is observed, not judged) and no program of the behaviour monitors held a control byte followed by a digit | string literals `\\001` + `0`, `é9`, `ESC[0m`, `\\000` + `007` among the generated programs' strings: C01 and C06 now report the changed result; C13 itself stays silent by design |
| C16-5 | method-call receivers were names, parenthesised names, calls and a field of a literal table - reading them twice was never observable | receivers `P.fld` / `P[k]`, bare and parenthesised, on a proxy whose `__index` logs and returns the record (the earlier `h:meth()` on the all-metamethods object always raised and was discarded) |
| C19-5 | the change is in the *memory* of the configuration fingerprint across passes, which no single parse/serialise observes | nothing to add to C19: the C10 histories (configuration changed, then changed back) report stale outputs |
| C20-5 | the change is in the serialiser: rule filters do not reach the fingerprint | nothing to add to C20, whose single runs are unaffected: C19's distinguishability check reports `indistinguishable:..:differ[skip_files]` |

**Fourth round** (`<property>-7`; written in the last session with the monitors as they stood, no strengthening in between): seven of the eight changes of this round were reported by the quick tier of the check of their own property on the first pass; the eighth (C04-7: hexadecimal literals no longer follow `shift_token_line`) is not reported by C04, C18 or C05 and is left that way on purpose: the shift is only applied by append_text_comment with location `start` and by the bundler, which move lines by design, so C04's pipelines never call it, C18 pins lines only for location `end`, and the token sequence stays the same - a monitor for it would demand more than any given property states (a uniform shift)
(C02-7: unary operand parenthesised by the generator and then a `(`-statement, `dense:different-tree`; C05-7: `./`-spelled alias gives one file two bundle keys, `result`; C13-7: re-parse precision check skipped for recorded exponents 0..22, `number:dense:decimal:wrong-value`; C16-7: `local a = 1, g()` merged with the next `local`, `trace|group_local_assignment|local_with_more_values_than_names_followed_by_local`; C09-7: kept local-function name put in the reuse pool - the same slip an earlier author chose for C01-6 - `alpha:binding-changed`; C18-7: text opening with `[==[` written as a line comment, `append:output-unlexable`; C20-7: top-level `skip_files` ignored when `apply_to_files` is set, `top:unselected-file-fully-transformed`).
These shapes were in the workloads because earlier rounds or genuine findings had put them there (the `./` key of C05 and the more-values-than-names declaration of C16 are both repaired defects whose witnesses stayed as generator blocks).

After strengthening: every change that breaks a given property is caught (counts above the table; the one row not caught is C04-7, explained above).  The rounds say the same thing: every monitor catches what its workload contains, roughly 40 % of independently
chosen shapes were missing at the time they were tried, and the misses cluster in input *shapes* (a rule option, a position, a file layout) rather than in the oracles — the only
oracle-level corrections were the too-broad tolerances (C10, C15), the reference run trusted for what counts as faulty (C11) and the confirmation step that dropped history-dependent failures.  The same caveat as for every sampled monitor applies: a seeded change is caught when the workload holds the shape it needs; the two rounds show that about a third of independently chosen shapes were missing at first, so more remain.  A change being caught by the check of *its* property is the minimum asked; several are also visible to neighbouring checks (the scope-visitor change of C01-2 / C09-2 to C01, C09, C16; the generator newline-counting change of C03-1 / C04-2 to C03 and C04; the string-form change of C02-2 / C14-1 to C02, C13, C14), which was not measured systematically.
"""
s=open('DESIGN.md').read()
a=s.index('<!-- SEEDED:BEGIN -->')+len('<!-- SEEDED:BEGIN -->'); b=s.index('<!-- SEEDED:END -->')
s=s[:a]+"\n"+text+s[b:]
open('DESIGN.md','w').write(s)
print(len(rows),'rows',caught,'caught')
