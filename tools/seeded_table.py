#!/usr/bin/env python3
"""fill DESIGN.md between <!-- SEEDED:BEGIN --> and <!-- SEEDED:END --> from seeded/*/meta.json and runs.jsonl"""
import json,os,glob,re
os.chdir(os.path.dirname(os.path.abspath(__file__))+'/..')
rows=[]
for d in sorted(glob.glob('seeded/C*-*')):
    try: m=json.load(open(d+'/meta.json'))
    except Exception: continue
    runs=[]
    if os.path.exists(d+'/runs.jsonl'):
        for l in open(d+'/runs.jsonl'):
            try: runs.append(json.loads(l))
            except Exception: pass
    name=os.path.basename(d)
    summ=(m.get('summary') or '').replace('|','\\|').replace('\n',' ')
    if len(summ)>230: summ=summ[:227]+'…'
    needs=(m.get('needs') or '')
    if isinstance(needs,list): needs='; '.join(map(str,needs))
    needs=needs.replace('|','\\|').replace('\n',' ')
    if len(needs)>200: needs=needs[:197]+'…'
    # verdict per check: last run wins; earlier misses are reported
    by={}
    for r in runs: by.setdefault(r['check'],[]).append(r)
    cells=[]
    for c,rs in by.items():
        last=rs[-1]
        missed_before=any(x['exit']==0 for x in rs[:-1])
        if last['exit']==1:
            sig=(last.get('signatures') or [''])[0]
            if len(sig)>70: sig=sig[:67]+'…'
            cells.append(f"**{c} {last['tier']}: caught** (`{sig}`)"+(" — missed before the check was strengthened" if missed_before else ""))
        elif last['exit']==0:
            cells.append(f"{c} {last['tier']}: **missed**")
        else:
            cells.append(f"{c} {last['tier']}: run inconclusive (exit {last['exit']})")
    note=m.get('note_verdict','')
    rows.append(f"| {name} | {summ} | {needs} | {'; '.join(cells) if cells else 'not run yet'}{(' — '+note) if note else ''} |")
caught=sum(1 for r in rows if 'caught' in r and 'missed**' not in r)
text="Each row is one change written by a fresh sub-agent that saw only the property text (never /verif), confirmed by me in a scratch worktree\n(`tools/seed_confirm.sh`: the repository's full suite passes with the patch, the author's demonstration fails with it and passes without it), stored under\n`seeded/<property>-<n>/` (patch.diff, demo/, meta.json, runs.jsonl) and then applied to /repo, checked (`tools/seed_run.sh`) and reverted.\n\n"
text+=f"{len(rows)} changes, {caught} caught by the check of the property they target.\n\n"
text+="| change | what was changed | needs | outcome |\n|---|---|---|---|\n"+"\n".join(rows)+"\n"
s=open('DESIGN.md').read()
a=s.index('<!-- SEEDED:BEGIN -->')+len('<!-- SEEDED:BEGIN -->'); b=s.index('<!-- SEEDED:END -->')
s=s[:a]+"\n"+text+s[b:]
open('DESIGN.md','w').write(s)
print(len(rows),'rows',caught,'caught')
