#!/usr/bin/env python3
"""fill DESIGN.md between <!-- SEEDED:BEGIN --> and <!-- SEEDED:END --> from seeded/*/meta.json and runs.jsonl"""
import json,os,glob,re
os.chdir(os.path.dirname(os.path.abspath(__file__))+'/..')
rows=[]
for d in sorted(glob.glob('seeded/C*-*')):
    try: m=json.load(open(d+'/meta.json'))
    except Exception: continue
    runs=[]
    if os.path.exists(d+'/runs.jsonl'):
        for l in open(d+'/runs.jsonl'):
            try: runs.append(json.loads(l))
            except Exception: pass
    name=os.path.basename(d)
    summ=(m.get('summary') or '').replace('|','\\|').replace('\n',' ')
    if len(summ)>230: summ=summ[:227]+'…'
    needs=(m.get('needs') or '')
    if isinstance(needs,list): needs='; '.join(map(str,needs))
    needs=needs.replace('|','\\|').replace('\n',' ')
    if len(needs)>200: needs=needs[:197]+'…'
    # verdict per check: last run wins; earlier misses are reported
    by={}
    for r in runs: by.setdefault(r['check'],[]).append(r)
    cells=[]
    for c,rs in by.items():
        last=rs[-1]
        missed_before=any(x['exit']==0 for x in rs[:-1])
        if last['exit']==1:
            sig=(last.get('signatures') or [''])[0]
            if len(sig)>70: sig=sig[:67]+'…'
            cells.append(f"**{c} {last['tier']}: caught** (`{sig}`)"+(" — missed before the check was strengthened" if missed_before else ""))
        elif last['exit']==0:
            cells.append(f"{c} {last['tier']}: **missed**")
        else:
            cells.append(f"{c} {last['tier']}: run inconclusive (exit {last['exit']})")
    note=m.get('note_verdict','')
    rows.append(f"| {name} | {summ} | {needs} | {'; '.join(cells) if cells else 'not run yet'}{(' — '+note) if note else ''} |")
caught=sum(1 for r in rows if 'caught' in r and 'missed**' not in r)
text="Each row is one change written by a fresh sub-agent that saw only the property text (never /verif), confirmed by me in a scratch worktree\n(`tools/seed_confirm.sh`: the repository's full suite passes with the patch, the author's demonstration fails with it and passes without it), stored under\n`seeded/<property>-<n>/` (patch.diff, demo/, meta.json, runs.jsonl) and then applied to /repo, checked (`tools/seed_run.sh`) and reverted.\n\n"
text+=f"{len(rows)} changes, {caught} caught by the check of the property they target.\n\n"
text+="| change | what was changed | needs | outcome |\n|---|---|---|---|\n"+"\n".join(rows)+"\n"
text+="""
**First pass: 28 of 40 caught.**  What the twelve misses showed, and what was changed (each change was then re-run against the seeded change *and* against the unchanged tree at several seeds):

| missed | why the check was blind | strengthening |
|---|---|---|
| C02-2 | the tree flow only held short strings: none qualified for the long-bracket form | six strings >= 60 bytes (CR, CRLF, TAB, VT, FF, bracket runs, leading LF) among the special operands, in every operator position |
| C04-2 | no generated token spanned several lines | string literals are re-spelled as long-bracket strings with line breaks and as quoted strings with `\\`-newline / `\\z` continuations before layout (this also exposed an open finding: remove_compound_assignment duplicates a multi-line token) |
| C06-2 | compound-assignment targets had one key shape (`extt()[ext("k")]`) | every key/prefix shape the rule tells apart (cast, parenthesised, binary, unary, if-expression, interpolated string, index, field; parenthesised / cast / table-field prefixes), each with a logged side effect (exposed two defects, both repaired: interpolated-string key evaluated twice; missing `;` after generator-added parentheses) |
| C08-1 | if-expressions had a single branch | all `if a then .. elseif b then .. else ..` with one and two elseif over a leaf set of 8 (exhaustive) and elseif chains in random expressions |
| C10-2 | the change is in `file_watcher.rs`; the only back end was the API-level protocol model | live `--watch` back end (built just before) plus new operations `mvin` (file moved into the input tree from an unwatched place, new or over an existing source) and `mvout` |
| C11-1 | existing output directories were never named with a dot | `dist.v2`, `existing/out.d` |
| C11-2 | under fail-fast only "nothing wrong is written" was judged | with a faulty file in the work set the run has to report an error |
| C13-1 | no string long enough for the bracket form held closers of two levels | 32 texts with every subset of `]]`, `]=]`, `]==]`, `]===]` with and without a trailing `]` |
| C15-1 | a tolerance meant for the listed "short form shadowed by a sibling" finding also accepted any dropped `init` whatever the target's module folder name | tolerance restricted to the target mode's own folder name |
| C17-1 | `_G` was never shadowed while the injected name was read through it | `local _G = { NAME = .. }` and a local NAME next to `_G.NAME` / `_G["NAME"]` |
| C17-2 | profiling calls only stood in statement position | value positions (local, argument, parenthesised, condition, comparison) with 0-3 arguments returning false / nothing / several values (exposed a defect, repaired: `f() and nil` is false; and an open one: `nil` written in a multi-value tail position) |
| C19-2 | the contradictory pair was rejected anyway, by the invalid JSON in the environment variable it named | pairs whose only possible rejection is the collision check (variable unset) |

Second pass: 40 of 40 caught (see the outcome column; "missed before the check was strengthened" marks the twelve).  A change being caught by the check of *its* property is the minimum asked; several are also visible to neighbouring checks (the scope-visitor change of C01-2 / C09-2 to C01, C09, C16; the generator newline-counting change of C03-1 / C04-2 to C03 and C04; the string-form change of C02-2 / C14-1 to C02, C13, C14), which was not measured systematically.
"""
s=open('DESIGN.md').read()
a=s.index('<!-- SEEDED:BEGIN -->')+len('<!-- SEEDED:BEGIN -->'); b=s.index('<!-- SEEDED:END -->')
s=s[:a]+"\n"+text+s[b:]
open('DESIGN.md','w').write(s)
print(len(rows),'rows',caught,'caught')
