#!/usr/bin/env python3
"""copy confirmed seeded changes from /tmp/seedout into /verif/seeded/<ID>-<k>/ and merge my confirmation record
usage: seed_store.py <confirm-log> ..."""
import json,sys,os,shutil
conf={}
for f in sys.argv[1:]:
    for l in open(f):
        try: d=json.loads(l)
        except Exception: continue
        conf[d['dir']]=d
for d,c in sorted(conf.items()):
    if not c.get('confirmed'): print('NOT CONFIRMED',d); continue
    parts=d.rstrip('/').split('/'); pid=parts[-2]; k=parts[-1].replace('change','')
    if 'seedout2' in d: k=str(int(k)+2)   # second round
    if 'seedout3' in d: k=str(int(k)+4)   # third round
    dst=f'/verif/seeded/{pid}-{k}'
    os.makedirs(dst,exist_ok=True)
    shutil.copy(d+'/patch.diff',dst+'/patch.diff')
    if os.path.isdir(dst+'/demo'): shutil.rmtree(dst+'/demo')
    shutil.copytree(d+'/demo',dst+'/demo')
    try: meta=json.load(open(d+'/meta.json'))
    except Exception as e: meta={'property':pid,'summary':'(meta.json of the author unreadable: %s)'%e}
    old={}
    if os.path.exists(dst+'/meta.json'):
        try: old=json.load(open(dst+'/meta.json'))
        except Exception: pass
    meta['property']=pid
    meta['confirmed']={'how':'tools/seed_confirm.sh in a scratch worktree of /repo (patch applied: full nextest suite; demo with the patch; demo without the patch)','suite':c.get('suite'),'suite_rc':c.get('suite_rc'),'demo_with_patch_rc':c.get('demo_with_patch_rc'),'demo_without_patch_rc':c.get('demo_without_patch_rc')}
    for key in ('checks','base_commit'):
        if key in old: meta[key]=old[key]
    json.dump(meta,open(dst+'/meta.json','w'),indent=1)
    print('stored',dst)
