#!/usr/bin/env python3
import json,sys
r=json.load(open(sys.argv[1]))
sh=r['shrunk']
print('SIG',r['signature'])
cfg=sh['configs'][0]
print('RULES',cfg['rules'],cfg['generator'],cfg.get('model'))
print('SRC:\n'+sh['src'])
d=r['detail']
i=d.find('--- source')
print('DETAIL:',d[:i][:700])
j=d.find('--- output')
print('OUT:\n'+d[j+11:j+11+int(sys.argv[2]) if len(sys.argv)>2 else j+600])
