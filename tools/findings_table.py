#!/usr/bin/env python3
"""renders known_findings.json as the markdown table embedded in DESIGN.md (between the FINDINGS markers)"""
import json,re
k=json.load(open('/verif/known_findings.json'))
rows=[]
seen={}
for e in k:
    what=e['what']
    what=re.sub(r'^fixed: property=\S+ \S+ ','',what)
    rows.append((e['property'],e['key'],e['status']+((' '+e.get('commit','')) if e['status']=='fixed' else ''),what,e.get('witness','')))
rows.sort()
out=['| property | key | status | what fails | witness |','|---|---|---|---|---|']
for r in rows:
    out.append('| %s | %s | %s | %s | %s |'%(r[0],r[1],r[2],r[3].replace('|','\\|').replace('\n',' '),r[4]))
table='\n'.join(out)
p='/verif/DESIGN.md'
s=open(p).read()
a='<!-- FINDINGS:BEGIN -->'; b='<!-- FINDINGS:END -->'
if a in s and b in s:
    s=s[:s.index(a)+len(a)]+'\n'+table+'\n'+s[s.index(b):]
    open(p,'w').write(s)
print(len(rows),'findings')
