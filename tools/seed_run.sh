#!/bin/bash
# Apply a seeded change to /repo, run the given checks against it, undo. usage: seed_run.sh <dir with patch.diff> <tier> <ID>...
# prints one line per check: <ID> rc=<rc> <first VIOLATION signature lines>; results are appended to <dir>/runs.jsonl
set -u
D=$(readlink -f "$1"); tier=$2; shift 2
cd /verif
if [ -n "$(git -C /repo status --porcelain --untracked-files=no)" ]; then echo "/repo not clean"; exit 2; fi
git -C /repo apply "$D/patch.diff" || { echo "patch does not apply"; exit 2; }
trap 'git -C /repo checkout -- .' EXIT
for id in "$@"; do
  [ -d /verif/replays/$id ] && mv /verif/replays/$id /verif/replays/$id.seedrun.keep
  [ -f /verif/evidence/$id.json ] && cp /verif/evidence/$id.json /tmp/seedrun.evidence.$id.json   # evidence of the unchanged tree must not be replaced by a run against a seeded change
  tmp=$(mktemp); VERIF_SEED=${VERIF_SEED:-$RANDOM} ./check $id $tier >"$tmp" 2>&1; rc=$?
  echo "$id rc=$rc $(grep -E '^  signature' "$tmp" | head -4 | tr '\n' ';' | cut -c1-400)"
  grep -E "^$id (quick|thorough)" "$tmp" | cut -c1-200
  python3 tools/seed_record.py "$D" "$id" "$tier" "$rc" "$tmp"; rm -f "$tmp"
  [ -f /tmp/seedrun.evidence.$id.json ] && mv /tmp/seedrun.evidence.$id.json /verif/evidence/$id.json
  rm -rf /verif/replays/$id; [ -d /verif/replays/$id.seedrun.keep ] && mv /verif/replays/$id.seedrun.keep /verif/replays/$id
done
